//go:build verif

// Package zzverif is the harness API. Under the symbolic engine every
// function here is intercepted; this native implementation replays one
// concrete assignment (solver model) read from $ZZVERIF_REPLAY against the
// natively compiled real code.
package zzverif

import (
	"encoding/json"
	"fmt"
	"io/fs"
	"os"
	"path/filepath"
	"strconv"
	"time"
)

type replayFile struct {
	Harness string            `json:"harness"`
	Model   map[string]uint64 `json:"model"`
}

var (
	model    map[string]uint64
	counters = map[string]int{}
	loaded   bool
	// Failed collects assertion failures of the current replay.
	Failed []string
	// Obs collects observations of the current replay.
	Obs []string
)

type AssumeFailed struct{}

func load() {
	if loaded {
		return
	}
	loaded = true
	model = map[string]uint64{}
	if fn := os.Getenv("ZZVERIF_REPLAY"); fn != "" {
		b, err := os.ReadFile(fn)
		if err != nil {
			panic(err)
		}
		var rf replayFile
		if err := json.Unmarshal(b, &rf); err != nil {
			panic(err)
		}
		model = rf.Model
	}
}

// SetModel installs a model directly (used by the replay test driver).
func SetModel(m map[string]uint64) {
	loaded = true
	model = m
	counters = map[string]int{}
	Failed = nil
	Obs = nil
}

func next(name string) uint64 {
	load()
	k := counters[name]
	counters[name] = k + 1
	return model[name+"#"+strconv.Itoa(k)]
}

func U8(name string) uint8   { return uint8(next(name)) }
func U16(name string) uint16 { return uint16(next(name)) }
func U32(name string) uint32 { return uint32(next(name)) }
func U64(name string) uint64 { return next(name) }
func Int(name string) int    { return int(next(name)) }
func I64(name string) int64  { return int64(next(name)) }
func I32(name string) int32  { return int32(next(name)) }
func Bool(name string) bool  { return next(name) != 0 }

func Range(name string, lo, hi int) int {
	if hi < lo {
		panic(AssumeFailed{})
	}
	if hi == lo {
		return lo
	}
	return lo + int(next(name))
}

func Choice(name string, n int) int { return int(next(name)) }

func Bytes(name string, n int) []byte {
	b := make([]byte, n)
	for i := range b {
		b[i] = byte(next(fmt.Sprintf("%s[%d]", name, i)))
	}
	return b
}

func Assume(c bool) {
	if !c {
		panic(AssumeFailed{})
	}
}

func Assert(c bool, label string) {
	if !c {
		Failed = append(Failed, label)
		fmt.Printf("ZZVERIF-ASSERT-FAIL %s\n", label)
		panic(AssertFailed{label})
	}
}

type AssertFailed struct{ Label string }

func Cover(label string)         {}
func LoopBound(n int)            {}
func MaxInstr(n int64)           {}
func ExpectPanic(substr string)  {}
func BoundIsViolation()          {}
func DeadlockIsViolation()       {}
func Yield()                     {}
func Symbolic() bool             { return false }
func Replaying() bool            { return true }
func Override(name string, f any) { overrides[name] = f }

var overrides = map[string]any{}

func Observe(label string, v any) {
	var s string
	switch x := v.(type) {
	case string:
		s = strconv.Quote(x)
	case []byte:
		s = "["
		for i, b := range x {
			if i > 0 {
				s += " "
			}
			s += strconv.Itoa(int(b))
		}
		s += "]"
	default:
		s = fmt.Sprint(v)
	}
	Obs = append(Obs, label+"="+s)
}

func And(c ...bool) bool {
	for _, x := range c {
		if !x {
			return false
		}
	}
	return true
}

func Or(c ...bool) bool {
	for _, x := range c {
		if x {
			return true
		}
	}
	return false
}

func Not(a bool) bool        { return !a }
func Implies(a, b bool) bool { return !a || b }
func Iff(a, b bool) bool     { return a == b }

func IteU64(c bool, a, b uint64) uint64 {
	if c {
		return a
	}
	return b
}
func IteInt(c bool, a, b int) int {
	if c {
		return a
	}
	return b
}
func IteU8(c bool, a, b uint8) uint8 {
	if c {
		return a
	}
	return b
}
func IteBool(c bool, a, b bool) bool {
	if c {
		return a
	}
	return b
}
func Concretize(v int) int { return v }

// ---------------------------------------------------------------------
// Native replay driver

type ReplayCase struct {
	ID      string            `json:"id"`
	Harness string            `json:"harness"`
	Model   map[string]uint64 `json:"model"`
	Known   []string          `json:"known,omitempty"`
	Params  map[string]int    `json:"params,omitempty"`
}

var knownIDs = map[string]bool{}
var params = map[string]int{}

// Param returns a tier-specific bound chosen by the check registry.
func Param(name string, def int) int {
	if v, ok := params[name]; ok {
		return v
	}
	return def
}

// Known reports whether the finding id is listed as known (not fixed) in
// /verif/known_findings.jsonl; harnesses use it to exclude exactly the
// finding's own input predicate.
func Known(id string) bool { return knownIDs[id] }

// RunReplays executes the cases listed in $ZZVERIF_REPLAYS against reg.
func RunReplays(reg map[string]func()) {
	fn := os.Getenv("ZZVERIF_REPLAYS")
	if fn == "" {
		return
	}
	b, err := os.ReadFile(fn)
	if err != nil {
		panic(err)
	}
	var cases []ReplayCase
	if err := json.Unmarshal(b, &cases); err != nil {
		panic(err)
	}
	for _, c := range cases {
		h := reg[c.Harness]
		if h == nil {
			fmt.Printf("ZZVERIF-RESULT %s\n", mustJSON(map[string]any{"id": c.ID, "outcome": "no-such-harness"}))
			continue
		}
		SetModel(c.Model)
		knownIDs = map[string]bool{}
		for _, k := range c.Known {
			knownIDs[k] = true
		}
		overrides = map[string]any{}
		params = c.Params
		ResetTempDir()
		outcome, detail := runOne(h)
		fmt.Printf("ZZVERIF-RESULT %s\n", mustJSON(map[string]any{"id": c.ID, "outcome": outcome, "detail": detail, "obs": Obs}))
	}
	ResetTempDir()
}

func mustJSON(v any) string {
	b, _ := json.Marshal(v)
	return string(b)
}

func runOne(h func()) (outcome, detail string) {
	defer func() {
		if r := recover(); r != nil {
			switch x := r.(type) {
			case AssertFailed:
				outcome, detail = "assert", x.Label
			case AssumeFailed:
				outcome = "assume-failed"
			default:
				outcome, detail = "panic", fmt.Sprint(r)
			}
		}
	}()
	h()
	return "ok", ""
}

// Exists: the engine checks that cond is satisfiable on the current path
// (an existential obligation); natively it is a no-op — harnesses decide the
// same obligation by enumeration under Replaying().
func Exists(cond bool, label string) {}

// PermuteMaps: while on, the engine treats the iteration order of every map
// with at most three entries as a symbolic choice (all permutations explored).
func PermuteMaps(on bool) {}

// ---------------------------------------------------------------------
// File-system access for harnesses (engine: in-memory model; native: a
// temporary directory of the real file system).

var tempDir string

func TempDir() string {
	if tempDir == "" {
		d, err := os.MkdirTemp("", "zzverif-")
		if err != nil {
			panic(err)
		}
		tempDir = d
	}
	return tempDir
}

// ResetTempDir removes the directory of the previous replay.
func ResetTempDir() {
	if tempDir != "" {
		os.RemoveAll(tempDir)
		tempDir = ""
	}
}

func FSFiles() []string {
	ents, _ := os.ReadDir(TempDir())
	var res []string
	for _, e := range ents {
		res = append(res, TempDir()+"/"+e.Name())
	}
	return res
}

func FSSize(name string) int {
	st, err := os.Stat(name)
	if err != nil {
		return -1
	}
	return int(st.Size())
}

func FSTruncate(name string, n int) {
	if st, err := os.Stat(name); err == nil && int64(n) < st.Size() {
		os.Truncate(name, int64(n))
	}
}

func FSBadUse() int        { return 0 }
func FSOps() int           { return 0 }
func FSCrashAfter(k int)   {}

// FSList: base names of the files directly inside dir, sorted.
func FSList(dir string) []string {
	ents, _ := os.ReadDir(dir)
	var res []string
	for _, e := range ents {
		if !e.IsDir() {
			res = append(res, e.Name())
		}
	}
	return res
}

// FSCopyTree copies every file below src to the same place below dst (a
// directory snapshot: what a killed process leaves behind).
func FSCopyTree(src, dst string) {
	filepath.Walk(src, func(path string, info os.FileInfo, err error) error {
		if err != nil {
			return nil
		}
		rel, _ := filepath.Rel(src, path)
		if info.IsDir() {
			os.MkdirAll(filepath.Join(dst, rel), 0o755)
			return nil
		}
		FSCopyFile(path, filepath.Join(dst, rel))
		return nil
	})
}

func FSCopyFile(src, dst string) {
	b, err := os.ReadFile(src)
	if err != nil {
		return
	}
	os.MkdirAll(filepath.Dir(dst), 0o755)
	os.WriteFile(dst, b, 0o644)
}

func FSRemove(name string) { os.Remove(name) }

// DirEnt / FileInf: what the engine's os.ReadDir returns (the in-memory file
// system has no os-level directory entries). Unused natively.
type DirEnt struct {
	N   string
	Sz  int64
	Dir bool
}

func (d DirEnt) Name() string { return d.N }
func (d DirEnt) IsDir() bool  { return d.Dir }
func (d DirEnt) Type() fs.FileMode {
	if d.Dir {
		return fs.ModeDir
	}
	return 0
}
func (d DirEnt) Info() (fs.FileInfo, error) { return FileInf{d}, nil }

type FileInf struct{ D DirEnt }

func (f FileInf) Name() string       { return f.D.N }
func (f FileInf) Size() int64        { return f.D.Sz }
func (f FileInf) Mode() fs.FileMode  { return f.D.Type() | 0o644 }
func (f FileInf) ModTime() time.Time { return time.Time{} }
func (f FileInf) IsDir() bool        { return f.D.Dir }
func (f FileInf) Sys() any           { return nil }
