//go:build verif

package query

// Shared machinery of the C03 / C14 harnesses: construction of query ASTs
// (the grammar stage is participle = reflection, not encodable; the parse
// tree is built directly and, natively, rendered to text for the real value
// parsers), a symbolic stream, and two reference evaluators.

import (
	"fmt"
	"net"
	"strings"
	"time"

	"github.com/alecthomas/participle/v2"
	zz "github.com/spq/pkappa2/internal/zzverif"
)

// ---------------------------------------------------------------- parse-table stubs

var (
	zzNumTable  map[string]*numberRangeListParser
	zzTokTable  map[string]*tokenListParser
	zzHostTable map[string]*hostListParser
	zzTimeTable map[string]*timeRangeListParser
	zzStrTable  map[string]*stringParser
	zzKeySeq    int
)

func zzKey() string {
	zzKeySeq++
	return fmt.Sprintf("#%d", zzKeySeq)
}

const zzPP = "(*github.com/alecthomas/participle/v2.Parser["
const zzQP = "github.com/spq/pkappa2/internal/query."

// zzInstallParsers replaces the five value parsers by table look-ups (engine
// only; natively the real parsers run on the rendered text).
func zzInstallParsers() {
	zzNumTable = map[string]*numberRangeListParser{}
	zzTokTable = map[string]*tokenListParser{}
	zzHostTable = map[string]*hostListParser{}
	zzTimeTable = map[string]*timeRangeListParser{}
	zzStrTable = map[string]*stringParser{}
	zzKeySeq = 0
	if !zz.Symbolic() {
		return
	}
	zz.Override(zzPP+zzQP+"numberRangeListParser]).ParseString", func(p *participle.Parser[numberRangeListParser], f, s string, o ...participle.ParseOption) (*numberRangeListParser, error) {
		if v, ok := zzNumTable[s]; ok {
			return v, nil
		}
		return nil, fmt.Errorf("zz: no parse for %q", s)
	})
	zz.Override(zzPP+zzQP+"tokenListParser]).ParseString", func(p *participle.Parser[tokenListParser], f, s string, o ...participle.ParseOption) (*tokenListParser, error) {
		if v, ok := zzTokTable[s]; ok {
			return v, nil
		}
		return nil, fmt.Errorf("zz: no parse for %q", s)
	})
	zz.Override(zzPP+zzQP+"hostListParser]).ParseString", func(p *participle.Parser[hostListParser], f, s string, o ...participle.ParseOption) (*hostListParser, error) {
		if v, ok := zzHostTable[s]; ok {
			return v, nil
		}
		return nil, fmt.Errorf("zz: no parse for %q", s)
	})
	zz.Override(zzPP+zzQP+"timeRangeListParser]).ParseString", func(p *participle.Parser[timeRangeListParser], f, s string, o ...participle.ParseOption) (*timeRangeListParser, error) {
		if v, ok := zzTimeTable[s]; ok {
			return v, nil
		}
		return nil, fmt.Errorf("zz: no parse for %q", s)
	})
	zz.Override(zzPP+zzQP+"stringParser]).ParseString", func(p *participle.Parser[stringParser], f, s string, o ...participle.ParseOption) (*stringParser, error) {
		if v, ok := zzStrTable[s]; ok {
			return v, nil
		}
		// plain literal content
		r := &stringParser{}
		r.Elements = zzGrow(r.Elements)
		r.Elements[0].Content = s
		if s == "" {
			r.Elements = r.Elements[:0]
		}
		return r, nil
	})
}

func zzGrow[T any](s []T) []T {
	var z T
	return append(s, z)
}

// ---------------------------------------------------------------- the stream

type zzEvent struct {
	dir  uint8 // 0 client->server, 1 server->client
	data byte
}

type zzStream struct {
	id, cport, sport, cbytes, sbytes int
	ftime, ltime                     int64 // ns relative to the query's reference time
	flags                            uint16
	chost, shost                     []byte
	tagMatch, tagUncertain           map[string]bool
	events                           []zzEvent
}

func zzNewStream(nEvents int, hostLen int) *zzStream {
	s := &zzStream{
		id:     zz.Range("s.id", 0, 1<<20-1),
		cport:  zz.Range("s.cport", 0, 65535),
		sport:  zz.Range("s.sport", 0, 65535),
		cbytes: zz.Range("s.cbytes", 0, 1<<20-1),
		sbytes: zz.Range("s.sbytes", 0, 1<<20-1),
		flags:  zz.U16("s.flags"),
	}
	s.ftime = -int64(zz.Range("s.fago", 0, 1<<40-1))
	s.ltime = s.ftime + int64(zz.Range("s.dur", 0, 1<<38-1))
	s.chost = zz.Bytes("s.chost", hostLen)
	s.shost = zz.Bytes("s.shost", hostLen)
	s.tagMatch = map[string]bool{}
	s.tagUncertain = map[string]bool{}
	for _, t := range []string{"tag/x", "tag/y", "service/s", "mark/m"} {
		s.tagMatch[t] = zz.Bool("s.match." + t)
		s.tagUncertain[t] = zz.Bool("s.uncertain." + t)
	}
	for i := 0; i < nEvents; i++ {
		s.events = append(s.events, zzEvent{dir: uint8(zz.Range("s.ev.dir", 0, 1)), data: zz.U8("s.ev.data")})
	}
	return s
}

// ---------------------------------------------------------------- evalCS: conditions by their documented meaning

func zzNumAttr(s *zzStream, t NumberConditionSummandType) int {
	switch t {
	case NumberConditionSummandTypeID:
		return s.id
	case NumberConditionSummandTypeClientBytes:
		return s.cbytes
	case NumberConditionSummandTypeServerBytes:
		return s.sbytes
	case NumberConditionSummandTypeClientPort:
		return s.cport
	default:
		return s.sport
	}
}

// zzSeqFrom: does the element sequence match the events starting at cursor 0
// (each element: first event of its direction carrying its byte, strictly
// after the previous match)? Returns the truth of the whole sequence and of
// the sequence without its last element plus "last element matches after it".
func zzAtomByte(e *DataConditionElement) byte { return e.Regex[0] }

func zzMatchesFrom(s *zzStream, dir uint8, b byte, cursors []bool) []bool {
	n := len(s.events)
	out := make([]bool, n+1)
	for p := 0; p <= n; p++ {
		// first match from p is at j  => cursor j+1
		noneBefore := true
		for j := p; j < n; j++ {
			m := zz.And(s.events[j].dir == dir, s.events[j].data == b)
			out[j+1] = zz.Or(out[j+1], zz.And(cursors[p], noneBefore, m))
			noneBefore = zz.And(noneBefore, zz.Not(m))
		}
	}
	return out
}

func zzAny(c []bool) bool {
	r := false
	for _, x := range c {
		r = zz.Or(r, x)
	}
	return r
}

func zzEvalCondition(c Condition, s *zzStream) bool {
	switch cc := c.(type) {
	case *ImpossibleCondition:
		return false
	case *TagCondition:
		m, u := s.tagMatch[cc.TagName], s.tagUncertain[cc.TagName]
		a := cc.Accept
		return zz.Or(
			zz.And(a&TagConditionAcceptMatching != 0, m, zz.Not(u)),
			zz.And(a&TagConditionAcceptFailing != 0, zz.Not(m), zz.Not(u)),
			zz.And(a&TagConditionAcceptUncertainMatching != 0, m, u),
			zz.And(a&TagConditionAcceptUncertainFailing != 0, zz.Not(m), u))
	case *FlagCondition:
		// (xor of the flags of all sub-queries ^ Value) & Mask != 0 ; main query only
		x := uint16(0)
		for range cc.SubQueries {
			x ^= s.flags
		}
		return (x^cc.Value)&cc.Mask != 0
	case *HostCondition:
		hl := len(s.chost)
		if len(cc.Host) != hl && len(cc.Host) != 0 {
			return cc.Invert
		}
		mask := cc.Mask4
		if hl == 16 {
			mask = cc.Mask6
		}
		diff := false
		for i := 0; i < hl; i++ {
			h := byte(0)
			if len(cc.Host) != 0 {
				h = cc.Host[i]
			}
			for _, src := range cc.HostConditionSources {
				if src.Type == HostConditionSourceTypeClient {
					h ^= s.chost[i]
				} else {
					h ^= s.shost[i]
				}
			}
			diff = zz.Or(diff, h&mask[i] != 0)
		}
		return zz.Iff(diff, cc.Invert)
	case *NumberCondition:
		sum := cc.Number
		for _, sm := range cc.Summands {
			sum += sm.Factor * zzNumAttr(s, sm.Type)
		}
		return sum >= 0
	case *TimeCondition:
		d := int64(cc.Duration)
		for _, sm := range cc.Summands {
			d += int64(sm.FTimeFactor)*s.ftime + int64(sm.LTimeFactor)*s.ltime
		}
		return d >= 0
	case *DataCondition:
		cur := make([]bool, len(s.events)+1)
		cur[0] = true
		for i := range cc.Elements {
			e := &cc.Elements[i]
			next := zzMatchesFrom(s, e.Flags&DataRequirementSequenceFlagsDirection, zzAtomByte(e), cur)
			if i == len(cc.Elements)-1 && cc.Inverted {
				// prefix matched, last element does not match afterwards
				return zz.And(zzAny(cur), zz.Not(zzAny(next)))
			}
			cur = next
		}
		return zzAny(cur)
	}
	panic("zzEvalCondition: unknown condition")
}

func zzEvalCS(cs ConditionsSet, s *zzStream) bool {
	res := false
	for _, conj := range cs {
		ok := true
		for _, c := range conj {
			ok = zz.And(ok, zzEvalCondition(c, s))
		}
		res = zz.Or(res, ok)
	}
	return res
}

// ---------------------------------------------------------------- expression trees with their own meaning

type zzKind int

const (
	zzLeaf zzKind = iota
	zzNot
	zzAnd
	zzOr
	zzThen
)

// zzExpr is an expression as written: its AST for the code under test, its
// text (native replay) and its meaning (leaf: truth on a stream; data atom:
// direction and byte).
type zzExpr struct {
	kind   zzKind
	sub    []*zzExpr
	term   *queryTerm
	isData bool
	dirs   []uint8 // data leaf: directions it may match in (data: both)
	b      byte
	truth  func(s *zzStream) bool
	text   string
}

func (e *zzExpr) String() string {
	switch e.kind {
	case zzLeaf:
		return e.text
	case zzNot:
		return "-(" + e.sub[0].String() + ")"
	}
	op := map[zzKind]string{zzAnd: " and ", zzOr: " or ", zzThen: " then "}[e.kind]
	parts := []string{}
	for _, x := range e.sub {
		parts = append(parts, "("+x.String()+")")
	}
	return strings.Join(parts, op)
}

// AST construction: every node becomes a queryCondition.
func (e *zzExpr) cond() *queryCondition {
	switch e.kind {
	case zzLeaf:
		return &queryCondition{Term: e.term}
	case zzNot:
		return &queryCondition{Negated: e.sub[0].cond()}
	case zzOr:
		or := &queryOrCondition{}
		for _, x := range e.sub {
			or.Or = append(or.Or, &queryAndCondition{And: []*queryThenCondition{{Then: []*queryCondition{x.cond()}}}})
		}
		return &queryCondition{Grouped: or}
	case zzAnd:
		and := &queryAndCondition{}
		for _, x := range e.sub {
			and.And = append(and.And, &queryThenCondition{Then: []*queryCondition{x.cond()}})
		}
		return &queryCondition{Grouped: &queryOrCondition{Or: []*queryAndCondition{and}}}
	default:
		th := &queryThenCondition{}
		for _, x := range e.sub {
			th.Then = append(th.Then, x.cond())
		}
		return &queryCondition{Grouped: &queryOrCondition{Or: []*queryAndCondition{{And: []*queryThenCondition{th}}}}}
	}
}

func (e *zzExpr) root() *queryRoot {
	return &queryRoot{Term: &queryOrCondition{Or: []*queryAndCondition{{And: []*queryThenCondition{{Then: []*queryCondition{e.cond()}}}}}}}
}

// zzEval: the expression as written. Cursor-set semantics so that THEN
// ("like AND, but data filters match sequentially") has a meaning of its own:
// every node maps a set of cursors into the conversation to the set of
// cursors after it; non-data filters do not move the cursor.
func zzEvalFrom(e *zzExpr, s *zzStream, cur []bool) []bool {
	n := len(s.events)
	switch e.kind {
	case zzLeaf:
		if e.isData {
			out := make([]bool, n+1)
			for _, d := range e.dirs {
				o := zzMatchesFrom(s, d, e.b, cur)
				for i := range out {
					out[i] = zz.Or(out[i], o[i])
				}
			}
			return out
		}
		t := e.truth(s)
		out := make([]bool, n+1)
		for i := range out {
			out[i] = zz.And(cur[i], t)
		}
		return out
	case zzNot:
		out := make([]bool, n+1)
		for p := 0; p <= n; p++ {
			one := make([]bool, n+1)
			one[p] = true
			out[p] = zz.And(cur[p], zz.Not(zzAny(zzEvalFrom(e.sub[0], s, one))))
		}
		return out
	case zzOr:
		out := make([]bool, n+1)
		for _, x := range e.sub {
			o := zzEvalFrom(x, s, cur)
			for i := range out {
				out[i] = zz.Or(out[i], o[i])
			}
		}
		return out
	case zzThen:
		for _, x := range e.sub {
			cur = zzEvalFrom(x, s, cur)
		}
		return cur
	default: // and: every operand from the same cursor, continue after the later one
		out := make([]bool, n+1)
		for p := 0; p <= n; p++ {
			one := make([]bool, n+1)
			one[p] = true
			acc := one
			for k, x := range e.sub {
				o := zzEvalFrom(x, s, one)
				if k == 0 {
					acc = o
					continue
				}
				m := make([]bool, n+1)
				for a := 0; a <= n; a++ {
					for b := 0; b <= n; b++ {
						mx := a
						if b > mx {
							mx = b
						}
						m[mx] = zz.Or(m[mx], zz.And(acc[a], o[b]))
					}
				}
				acc = m
			}
			for i := range out {
				out[i] = zz.Or(out[i], zz.And(cur[p], acc[i]))
			}
		}
		return out
	}
}

func zzEvalAST(e *zzExpr, s *zzStream) bool {
	cur := make([]bool, len(s.events)+1)
	cur[0] = true
	return zzAny(zzEvalFrom(e, s, cur))
}

// ---------------------------------------------------------------- leaves

func zzNumAttrs(key string) []NumberConditionSummandType {
	return map[string][]NumberConditionSummandType{
		"id": {NumberConditionSummandTypeID}, "cport": {NumberConditionSummandTypeClientPort},
		"sport": {NumberConditionSummandTypeServerPort}, "port": {NumberConditionSummandTypeClientPort, NumberConditionSummandTypeServerPort},
		"cbytes": {NumberConditionSummandTypeClientBytes}, "sbytes": {NumberConditionSummandTypeServerBytes},
		"bytes": {NumberConditionSummandTypeClientBytes, NumberConditionSummandTypeServerBytes},
	}[key]
}

// number leaf: form 0 single N, 1 range A:B, 2 open A:, 3 open :B, 4 list N,M
func zzNumberLeaf(key string, form int) *zzExpr {
	a := zz.Range("num.a", 0, 1<<20-1)
	b := zz.Range("num.b", 0, 1<<20-1)
	v := &numberRangeListParser{}
	addPart := func(r int, n int) {
		l := &v.List[len(v.List)-1]
		for len(l.Range) <= r {
			l.Range = zzGrow(l.Range)
		}
		l.Range[r].Parts = zzGrow(l.Range[r].Parts)
		l.Range[r].Parts[len(l.Range[r].Parts)-1].Number = n
	}
	emptyRange := func(r int) {
		l := &v.List[len(v.List)-1]
		for len(l.Range) <= r {
			l.Range = zzGrow(l.Range)
		}
	}
	v.List = zzGrow(v.List)
	text := ""
	var in func(x int) bool
	switch form {
	case 0:
		addPart(0, a)
		text = fmt.Sprintf("%d", a)
		in = func(x int) bool { return x == a }
	case 1:
		addPart(0, a)
		addPart(1, b)
		text = fmt.Sprintf("%d:%d", a, b)
		in = func(x int) bool { return zz.And(x >= a, x <= b) }
	case 2:
		addPart(0, a)
		emptyRange(1)
		text = fmt.Sprintf("%d:", a)
		in = func(x int) bool { return x >= a }
	case 3:
		emptyRange(0)
		addPart(1, b)
		text = fmt.Sprintf(":%d", b)
		in = func(x int) bool { return x <= b }
	default:
		addPart(0, a)
		v.List = zzGrow(v.List)
		addPart(0, b)
		text = fmt.Sprintf("%d,%d", a, b)
		in = func(x int) bool { return zz.Or(x == a, x == b) }
	}
	attrs := zzNumAttrs(key)
	e := &zzExpr{kind: zzLeaf, text: key + ":" + text}
	e.truth = func(s *zzStream) bool {
		r := false
		for _, t := range attrs {
			r = zz.Or(r, in(zzNumAttr(s, t)))
		}
		return r
	}
	val := text
	if zz.Symbolic() {
		val = zzKey()
		zzNumTable[val] = v
	}
	e.term = &queryTerm{Key: key, Value: val}
	return e
}

func zzTagLeaf(key, name string) *zzExpr {
	full := key + "/" + name
	return &zzExpr{kind: zzLeaf, text: key + ":" + name, term: &queryTerm{Key: key, Value: name},
		truth: func(s *zzStream) bool { return s.tagMatch[full] }}
}

func zzProtocolLeaf(which int) *zzExpr {
	names := []string{"other", "tcp", "udp", "sctp"}
	v := &tokenListParser{}
	v.List = zzGrow(v.List)
	v.List[0].Token = names[which]
	val := names[which]
	if zz.Symbolic() {
		val = zzKey()
		zzTokTable[val] = v
	}
	return &zzExpr{kind: zzLeaf, text: "protocol:" + names[which], term: &queryTerm{Key: "protocol", Value: val},
		truth: func(s *zzStream) bool { return s.flags&flagsStreamProtocol == uint16(which) }}
}

// host leaf (IPv4): key chost/shost/host, address with symbolic bytes and a
// prefix length from {none, 8, 24, 32, 0}
func zzHostLeaf(key string, maskSel int) *zzExpr {
	addr := zz.Bytes("host.addr", 4)
	bits := []int{-1, 8, 24, 32, 0}[maskSel]
	v := &hostListParser{}
	v.List = zzGrow(v.List)
	v.List[0].Host = &hostParser{Host: net.IP(addr)}
	text := fmt.Sprintf("%d.%d.%d.%d", addr[0], addr[1], addr[2], addr[3])
	m4 := []byte{255, 255, 255, 255}
	if bits >= 0 {
		mp := &maskParser{V4Mask: make([]byte, 4), V6Mask: make([]byte, 16)}
		for i := 0; i < bits; i++ {
			mp.V4Mask[i/8] ^= 1 << (7 - (i % 8))
			mp.V6Mask[i/8] ^= 1 << (7 - (i % 8))
		}
		v.List[0].Masks = mp
		m4 = append([]byte(nil), mp.V4Mask...)
		if bits > 0 {
			text += fmt.Sprintf("/%d", bits)
		} else {
			text += "/0"
		}
	}
	val := text
	if zz.Symbolic() {
		val = zzKey()
		zzHostTable[val] = v
	}
	eq := func(h []byte) bool {
		if len(h) != 4 {
			return false
		}
		ok := true
		for i := 0; i < 4; i++ {
			ok = zz.And(ok, (h[i]^addr[i])&m4[i] == 0)
		}
		return ok
	}
	e := &zzExpr{kind: zzLeaf, text: key + ":" + text, term: &queryTerm{Key: key, Value: val}}
	e.truth = func(s *zzStream) bool {
		switch key {
		case "chost":
			return eq(s.chost)
		case "shost":
			return eq(s.shost)
		}
		return zz.Or(eq(s.chost), eq(s.shost))
	}
	return e
}

// time leaf with durations relative to the reference time ("now"):
// form 0: key:-A:   (not older than A)   1: key::-B (older than B)   2: key:-A:-B
func zzTimeLeaf(key string, form int) *zzExpr {
	// nanosecond literals: no symbolic multiplication by 10^9
	a := int64(zz.Range("time.a", 0, 1<<44-1))
	b := int64(zz.Range("time.b", 0, 1<<44-1))
	v := &timeRangeListParser{}
	v.List = zzGrow(v.List)
	l := &v.List[0]
	l.Range = zzGrow(zzGrow(l.Range))
	add := func(r int, d int64) {
		l.Range[r].Parts = zzGrow(l.Range[r].Parts)
		p := &l.Range[r].Parts[len(l.Range[r].Parts)-1]
		p.Operators = "-"
		p.Duration = &durationParser{Duration: time.Duration(d)}
	}
	var text string
	// lower bound L: value >= -a ; upper bound U: value <= -b (relative ns)
	hasL, hasU := false, false
	addAbs := func(r int, which int) int64 {
		// absolute timestamps: concrete sample dates around the reference time
		// (2023-11-14 22:13:20 UTC); the arithmetic that re-bases them is real code
		dates := []time.Time{time.Date(2023, 11, 14, 22, 0, 0, 0, time.UTC), time.Date(2023, 11, 13, 9, 30, 0, 0, time.UTC)}
		texts := []string{"2023-11-14 2200", "2023-11-13 0930"}
		l.Range[r].Parts = zzGrow(l.Range[r].Parts)
		p := &l.Range[r].Parts[len(l.Range[r].Parts)-1]
		p.Time = &timeParser{Time: dates[which], HasDate: true}
		if r == 0 {
			text = texts[which] + ":"
		} else {
			text = ":" + texts[which]
		}
		return -int64(dates[which].Sub(time.Unix(1700000000, 0)))
	}
	switch form {
	case 0:
		add(0, a)
		hasL = true
		text = fmt.Sprintf("-%dns:", a)
	case 1:
		add(1, b)
		hasU = true
		text = fmt.Sprintf(":-%dns", b)
	case 2:
		add(0, a)
		add(1, b)
		hasL, hasU = true, true
		text = fmt.Sprintf("-%dns:-%dns", a, b)
	case 3:
		a = addAbs(0, zz.Choice("time.date", 2))
		hasL = true
	default:
		b = addAbs(1, zz.Choice("time.date", 2))
		hasU = true
	}
	val := text
	if zz.Symbolic() {
		val = zzKey()
		zzTimeTable[val] = v
	}
	e := &zzExpr{kind: zzLeaf, text: key + ":" + text, term: &queryTerm{Key: key, Value: val}}
	e.truth = func(s *zzStream) bool {
		lo := func(x int64) bool { return zz.Or(!hasL, x >= -a) }
		hi := func(x int64) bool { return zz.Or(!hasU, x <= -b) }
		switch key {
		case "ftime":
			return zz.And(lo(s.ftime), hi(s.ftime))
		case "ltime":
			return zz.And(lo(s.ltime), hi(s.ltime))
		}
		// time:L:U = some packet in the range: last packet not before L, first not after U
		return zz.And(lo(s.ltime), hi(s.ftime))
	}
	return e
}

// data leaf: key cdata/sdata/data, a one-byte literal atom
func zzDataLeaf(key string, b byte) *zzExpr {
	e := &zzExpr{kind: zzLeaf, isData: true, b: b, text: key + ":" + string(rune(b)), term: &queryTerm{Key: key, Value: string(rune(b))}}
	switch key {
	case "cdata":
		e.dirs = []uint8{0}
	case "sdata":
		e.dirs = []uint8{1}
	default:
		e.dirs = []uint8{0, 1}
	}
	return e
}

// zzLeafByFamily builds one leaf; fam indexes the leaf families.
const zzNumFamilies = 15

func zzLeafByFamily(fam int) *zzExpr {
	nf := zz.Param("numforms", 5)
	switch fam {
	case 0:
		return zzNumberLeaf("id", zz.Choice("numform", nf))
	case 1:
		return zzNumberLeaf("port", zz.Choice("numform", nf))
	case 2:
		return zzNumberLeaf("cbytes", zz.Choice("numform", nf))
	case 3:
		return zzNumberLeaf("sport", zz.Choice("numform", nf))
	case 4:
		return zzTagLeaf("tag", "x")
	case 5:
		return zzTagLeaf("service", "s")
	case 6:
		return zzDataLeaf("cdata", 'a')
	case 7:
		return zzDataLeaf("cdata", 'b')
	case 8:
		return zzDataLeaf("sdata", 'a')
	case 9:
		return zzDataLeaf("data", 'b')
	case 10:
		return zzProtocolLeaf(zz.Choice("proto", 4))
	case 11:
		return zzHostLeaf([]string{"host", "chost", "shost"}[zz.Choice("hostkey", zz.Param("hostkeys", 3))], zz.Choice("hostmask", zz.Param("hostmasks", 5)))
	case 12:
		return zzTimeLeaf("ftime", zz.Choice("timeform", zz.Param("timeforms", 3)))
	case 13:
		return zzTimeLeaf("ltime", zz.Choice("timeform", zz.Param("timeforms", 3)))
	default:
		return zzTimeLeaf("time", 2-zz.Choice("timeform", zz.Param("timeforms", 3)))
	}
}

func zzN(x *zzExpr) *zzExpr        { return &zzExpr{kind: zzNot, sub: []*zzExpr{x}} }
func zzA(x ...*zzExpr) *zzExpr     { return &zzExpr{kind: zzAnd, sub: x} }
func zzO(x ...*zzExpr) *zzExpr     { return &zzExpr{kind: zzOr, sub: x} }
func zzT(x ...*zzExpr) *zzExpr     { return &zzExpr{kind: zzThen, sub: x} }
func zzIsDataLeaf(e *zzExpr) bool  { return e.kind == zzLeaf && e.isData }
