//go:build verif

package query

// C06 (query side): while a tag has streams pending re-evaluation a search
// inlines the tag's definition (InlineTagFilters). The inlined form must mean:
// "decided streams by their stored bit, pending streams by the definition".

import (
	"github.com/spq/pkappa2/internal/tools/bitmask"
	zz "github.com/spq/pkappa2/internal/zzverif"
)

func zzNumCond(t NumberConditionSummandType, factor, number int) Condition {
	return &NumberCondition{Summands: []NumberConditionSummand{{Type: t, Factor: factor}}, Number: number}
}

// zzTagDef: a definition with 1..2 alternatives over port / byte-count bounds
// with symbolic constants.
func zzTagDef(tag string, alts int) ConditionsSet {
	var cs ConditionsSet
	types := []NumberConditionSummandType{NumberConditionSummandTypeServerPort, NumberConditionSummandTypeClientBytes, NumberConditionSummandTypeClientPort}
	for i := 0; i < alts; i++ {
		t := types[i]
		n := zz.Range(tag+".bound", 0, 1<<16-1)
		if i == 0 {
			cs = append(cs, Conditions{zzNumCond(t, 1, -n)}) // attr >= n
		} else {
			cs = append(cs, Conditions{zzNumCond(t, -1, n)}) // attr <= n
		}
	}
	return cs
}

func ZZ_C06_InlineTagFilters() {
	s := zzNewStream(0, 4)
	names := []string{"tag/x", "tag/y"}
	tags := map[string]TagDetails{}
	defs := map[string]ConditionsSet{}
	for _, n := range names {
		d := zzTagDef(n, 1+zz.Choice(n+".alts", 2))
		defs[n] = d
		td := TagDetails{Conditions: d}
		if zz.Choice(n+".pending", 2) == 1 {
			td.Uncertain = bitmask.LongBitmask{}
			td.Uncertain.Set(5) // some stream is pending; whether ours is, is symbolic
		} else {
			zz.Assume(zz.Not(s.tagUncertain[n])) // nothing pending for this tag at all
		}
		tags[n] = td
	}
	acc := func(k int) TagConditionAccept {
		return []TagConditionAccept{
			TagConditionAcceptMatching | TagConditionAcceptUncertainMatching, // tag:x
			TagConditionAcceptFailing | TagConditionAcceptUncertainFailing,   // -tag:x
		}[k]
	}
	var cs ConditionsSet
	switch zz.Choice("query", 3) {
	case 0: // tag:x tag:y
		cs = ConditionsSet{{&TagCondition{TagName: "tag/x", Accept: acc(zz.Choice("neg.x", 2))}, &TagCondition{TagName: "tag/y", Accept: acc(zz.Choice("neg.y", 2))}}}
	case 1: // tag:x or tag:y
		cs = ConditionsSet{{&TagCondition{TagName: "tag/x", Accept: acc(zz.Choice("neg.x", 2))}}, {&TagCondition{TagName: "tag/y", Accept: acc(zz.Choice("neg.y", 2))}}}
	default: // sport:80 tag:x tag:y
		cs = ConditionsSet{{zzNumCond(NumberConditionSummandTypeServerPort, 1, -80), &TagCondition{TagName: "tag/x", Accept: acc(0)}, &TagCondition{TagName: "tag/y", Accept: acc(zz.Choice("neg.y", 2))}}}
	}

	// what the query means: a pending stream's membership is what its definition says
	rawMatch := map[string]bool{"tag/x": s.tagMatch["tag/x"], "tag/y": s.tagMatch["tag/y"]}
	eff := map[string]bool{}
	for _, n := range names {
		eff[n] = zz.IteBool(s.tagUncertain[n], zzEvalCS(defs[n], s), rawMatch[n])
	}
	s.tagMatch["tag/x"], s.tagMatch["tag/y"] = eff["tag/x"], eff["tag/y"]
	want := zzEvalCS(cs, s)
	s.tagMatch["tag/x"], s.tagMatch["tag/y"] = rawMatch["tag/x"], rawMatch["tag/y"]

	inlined := cs.InlineTagFilters(tags)
	zz.Observe("conjuncts", len(inlined))
	got := false
	if !inlined.impossible() {
		got = zzEvalCS(inlined, s)
	}
	zz.Assert(zz.Iff(got, want), "inlined-query-means-definition-for-pending-streams")
}
