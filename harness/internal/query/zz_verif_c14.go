//go:build verif

package query

// C14 (stage after the grammar): the normalisation pipeline is total — it
// returns (no panic) and terminates within loop bounds derived from the
// code — and does not depend on Go's randomised map iteration order.

import (
	"fmt"
	"strings"

	zz "github.com/spq/pkappa2/internal/zzverif"
)

// zzArithLeaf: key:<sum of parts>, parts = literals, the filter's own
// variable and sub-query variables, each with a sign, repeated up to 3 times.
func zzArithLeaf(key string) *zzExpr {
	v := &numberRangeListParser{}
	v.List = zzGrow(v.List)
	v.List[0].Range = zzGrow(v.List[0].Range)
	nparts := 1 + zz.Choice("arith.parts", zz.Param("arithparts", 4))
	text := ""
	for i := 0; i < nparts; i++ {
		v.List[0].Range[0].Parts = zzGrow(v.List[0].Range[0].Parts)
		p := &v.List[0].Range[0].Parts[i]
		neg := zz.Choice("arith.neg", 2) == 1
		if neg {
			p.Operators = "-"
			text += "-"
		} else if i > 0 {
			p.Operators = "+"
			text += "+"
		}
		switch k := zz.Choice("arith.kind", 4); k {
		case 0:
			n := zz.Range("arith.n", 0, 1<<16-1)
			p.Number = n
			text += fmt.Sprintf("%d", n)
		case 1:
			p.Variable = &variableParser{Name: key}
			text += "@" + key + "@"
		case 2:
			p.Variable = &variableParser{Name: key, Sub: "a"}
			text += "@a:" + key + "@"
		default:
			p.Variable = &variableParser{Name: key, Sub: "b"}
			text += "@b:" + key + "@"
		}
	}
	val := text
	if zz.Symbolic() {
		val = zzKey()
		zzNumTable[val] = v
	}
	return &zzExpr{kind: zzLeaf, text: key + ":" + text, term: &queryTerm{Key: key, Value: val}}
}

// every arithmetic filter normalises without panic and within the loop
// bounds of cleanNumberConditions (common-factor loop: at most one pass over
// the summands, inner decrement at most |factor| <= 4 steps).
func ZZ_C14_Arith() {
	zzInstallParsers()
	zz.LoopBound(zz.Param("loopbound", 400))
	zz.BoundIsViolation()
	e := zzArithLeaf([]string{"id", "cbytes"}[zz.Choice("key", 2)])
	if zz.Choice("negate", 2) == 1 {
		e = zzN(e)
	}
	pc := zzPC()
	cond, err := e.root().QueryConditions(pc)
	if err != nil {
		zz.Cover("rejected")
		return
	}
	cond = cond.Clean()
	zz.Cover("normalised")
	zz.Assert(cond.impossible() || len(cond) >= 0, "returns")
}

// odd but well-formed values: both range sides empty, /0 masks, duplicate
// list entries, variables of the wrong kind, 0..3 list elements
func zzOddLeaf(k int) *zzExpr {
	switch k {
	case 0: // id::  (both sides empty)
		v := &numberRangeListParser{}
		v.List = zzGrow(v.List)
		v.List[0].Range = zzGrow(zzGrow(v.List[0].Range))
		val := ":"
		if zz.Symbolic() {
			val = zzKey()
			zzNumTable[val] = v
		}
		return &zzExpr{kind: zzLeaf, text: "id::", term: &queryTerm{Key: "id", Value: val}}
	case 1: // id:N,N,N duplicates
		n := zz.Range("odd.n", 0, 1000)
		v := &numberRangeListParser{}
		for i := 0; i < 3; i++ {
			v.List = zzGrow(v.List)
			v.List[i].Range = zzGrow(v.List[i].Range)
			v.List[i].Range[0].Parts = zzGrow(v.List[i].Range[0].Parts)
			v.List[i].Range[0].Parts[0].Number = n
		}
		val := fmt.Sprintf("%d,%d,%d", n, n, n)
		if zz.Symbolic() {
			val = zzKey()
			zzNumTable[val] = v
		}
		return &zzExpr{kind: zzLeaf, text: "id:" + val, term: &queryTerm{Key: "id", Value: val}}
	case 2: // wrong variable kind: id:@ftime@
		v := &numberRangeListParser{}
		v.List = zzGrow(v.List)
		v.List[0].Range = zzGrow(v.List[0].Range)
		v.List[0].Range[0].Parts = zzGrow(v.List[0].Range[0].Parts)
		v.List[0].Range[0].Parts[0].Variable = &variableParser{Name: "ftime"}
		val := "@ftime@"
		if zz.Symbolic() {
			val = zzKey()
			zzNumTable[val] = v
		}
		return &zzExpr{kind: zzLeaf, text: "id:@ftime@", term: &queryTerm{Key: "id", Value: val}}
	case 3: // host with /0 mask
		return zzHostLeaf("host", 4)
	case 4: // protocol variable of another sub-query
		v := &tokenListParser{}
		v.List = zzGrow(v.List)
		v.List[0].Variable = &variableParser{Name: "protocol", Sub: "a"}
		val := "@a:protocol@"
		if zz.Symbolic() {
			val = zzKey()
			zzTokTable[val] = v
		}
		return &zzExpr{kind: zzLeaf, text: "protocol:@a:protocol@", term: &queryTerm{Key: "protocol", Value: val}}
	case 5: // tag list with an empty entry
		return &zzExpr{kind: zzLeaf, text: "tag:x,,y", term: &queryTerm{Key: "tag", Value: "x,,y"}}
	case 6: // converter on a non-data key
		return &zzExpr{kind: zzLeaf, text: "id.conv:1", term: &queryTerm{Key: "id", ConverterName: "conv", Value: "1"}}
	default: // time with own variables: ftime:@ltime@
		v := &timeRangeListParser{}
		v.List = zzGrow(v.List)
		v.List[0].Range = zzGrow(v.List[0].Range)
		v.List[0].Range[0].Parts = zzGrow(v.List[0].Range[0].Parts)
		v.List[0].Range[0].Parts[0].Variable = &variableParser{Name: "ltime"}
		val := "@ltime@"
		if zz.Symbolic() {
			val = zzKey()
			zzTimeTable[val] = v
		}
		return &zzExpr{kind: zzLeaf, text: "ftime:@ltime@", term: &queryTerm{Key: "ftime", Value: val}}
	}
}

func ZZ_C14_Odd() {
	zzInstallParsers()
	zz.BoundIsViolation()
	// negating a disjunction of n conjuncts of k conditions yields k^n
	// conjuncts by construction (3^9 here); the bound covers that
	zz.LoopBound(200_000)
	zz.MaxInstr(2_000_000_000)
	t := zz.Choice("shape", 8)
	e := zzShape(t, func() *zzExpr {
		if zz.Choice("odd", 2) == 1 {
			return zzOddLeaf([]int{0, 1, 2, 3, 5, 6, 7}[zz.Choice("oddkind", 7)])
		}
		return zzLeafByFamily([]int{0, 4, 6}[zz.Choice("leaf", 3)])
	})
	pc := zzPC()
	cond, err := e.root().QueryConditions(pc)
	if err != nil {
		zz.Cover("rejected")
		return
	}
	if cond != nil {
		cond = cond.Clean()
	}
	zz.Cover("normalised")
	zz.Assert(cond == nil || cond.impossible() || len(cond) >= 0, "returns")
}

func zzSubTagLeaf(sub, name string) *zzExpr {
	t := &queryTerm{Key: "tag", Value: name, SubQuery: sub}
	text := "tag:" + name
	if sub != "" {
		text = "@" + sub + ":" + text
	}
	return &zzExpr{kind: zzLeaf, text: text, term: t}
}

// the normal form must not depend on map iteration order (parsing the same
// text twice gives equivalent queries): the engine makes the order of every
// map of <= 3 entries a symbolic choice; natively the harness normalises 64
// times under Go's randomised order.
func ZZ_C14_Deterministic() {
	zzInstallParsers()
	t := zz.Choice("shape", zz.Param("detshapes", 8))
	mk := func() *zzExpr {
		zzKeySeq = 0
		leafNo := 0
		leaves := []int{}
		_ = leaves
		return zzShape(t, func() *zzExpr {
			leafNo++
			k := zz.Choice(fmt.Sprintf("leaf%d", leafNo), 6)
			switch k {
			case 0:
				return zzSubTagLeaf("", "x")
			case 1:
				return zzSubTagLeaf("a", "x")
			case 2:
				return zzSubTagLeaf("b", "x")
			case 3:
				return zzSubTagLeaf("", "y")
			case 4:
				return zzNumberLeaf("id", 4)
			default:
				return zzDataLeaf("cdata", 'a')
			}
		})
	}
	e := mk()
	zz.PermuteMaps(false)
	cs0, n0 := zzNormalize(e)
	ref := cs0.String()
	zz.PermuteMaps(true)
	runs := 1
	if zz.Replaying() {
		runs = 64
	}
	for i := 0; i < runs; i++ {
		cs1, n1 := zzNormalize(e)
		zz.Assert(n0 == n1, "deterministic.matches-nothing")
		zz.Assert(cs1.String() == ref, "deterministic.normal-form")
	}
	_ = strings.Join
}
