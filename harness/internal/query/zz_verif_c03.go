//go:build verif

package query

// C03: normalisation never changes what a query means.
// C14 (post-grammar stage): the same pipeline is total.

import (
	"fmt"
	"time"

	zz "github.com/spq/pkappa2/internal/zzverif"
)

func zzPC() *parserContext {
	return &parserContext{referenceTime: time.Unix(1700000000, 0).UTC(), timezone: time.UTC}
}

// zzNormalize runs the real pipeline of Parse after the grammar stage.
// matchesNothing corresponds to Query.Conditions == nil.
func zzNormalize(e *zzExpr) (cs ConditionsSet, matchesNothing bool) {
	pc := zzPC()
	cond, err := e.root().QueryConditions(pc)
	zz.Assert(err == nil, "queryconditions.noerr")
	if cond == nil {
		return ConditionsSet{Conditions{}}, false
	}
	cond = cond.Clean()
	if cond.impossible() {
		return nil, true
	}
	if len(cond) == 0 {
		return ConditionsSet{Conditions{}}, false
	}
	return cond, false
}

// zzShape builds template t over leaves produced by pick (called in order).
const zzNumShapes = 20

func zzShape(t int, pick func() *zzExpr) *zzExpr {
	switch t {
	case 0:
		return pick()
	case 1:
		return zzN(pick())
	case 2:
		return zzA(pick(), pick())
	case 3:
		return zzO(pick(), pick())
	case 4:
		return zzN(zzA(pick(), pick()))
	case 5:
		return zzN(zzO(pick(), pick()))
	case 6:
		return zzA(zzN(pick()), pick())
	case 7:
		return zzO(zzN(pick()), pick())
	case 8:
		return zzT(pick(), pick())
	case 9:
		return zzN(zzT(pick(), pick()))
	case 10:
		return zzA(pick(), zzT(pick(), pick()))
	case 11:
		return zzA(zzN(pick()), zzT(pick(), pick()))
	case 12:
		return zzT(zzO(pick(), pick()), pick())
	case 13:
		return zzT(pick(), zzO(pick(), pick()))
	case 14:
		return zzT(pick(), zzN(pick()), pick())
	case 15:
		return zzO(zzA(pick(), pick()), pick())
	case 16:
		return zzA(pick(), zzO(pick(), pick()))
	case 17:
		return zzN(zzA(pick(), zzO(pick(), pick())))
	case 18:
		return zzA(zzN(zzT(pick(), pick())), pick())
	default:
		return zzT(pick(), pick(), pick())
	}
}

func zzCheckEquiv(e *zzExpr, s *zzStream) {
	cs, nothing := zzNormalize(e)
	want := zzEvalAST(e, s)
	zz.Observe("nothing", nothing)
	zz.Observe("conjuncts", len(cs))
	if nothing {
		zz.Assert(zz.Not(want), "matches-nothing-only-if-unsatisfiable")
		return
	}
	got := zzEvalCS(cs, s)
	zz.Assert(zz.Iff(got, want), "normal-form-equivalent")
}

// data / tag leaves: the normal form is computed concretely, the stream
// (truth values, payload events) is symbolic.
func ZZ_C03_Data() {
	zzInstallParsers()
	fams := []int{6, 7, 8, 9, 4}
	t := zz.Choice("shape", zzNumShapes)
	e := zzShape(t, func() *zzExpr { return zzLeafByFamily(fams[zz.Choice("leaf", len(fams))]) })
	s := zzNewStream(zz.Param("events", 3), 4)
	zzCheckEquiv(e, s)
}

// number leaves: literals symbolic, so sorting / de-duplication / range
// folding in the normaliser is decided by the solver.
func ZZ_C03_Number() {
	zzInstallParsers()
	fams := []int{0, 3, 1, 2}[:zz.Param("numfams", 2)]
	t := zz.Choice("shape", zz.Param("numshapes", 8))
	e := zzShape(t, func() *zzExpr { return zzLeafByFamily(fams[zz.Choice("leaf", len(fams))]) })
	s := zzNewStream(0, 4)
	zzCheckEquiv(e, s)
}

// one leaf of every kind against every other kind
func ZZ_C03_Mixed() {
	zzInstallParsers()
	fams := []int{0, 4, 6, 11, 12, 14, 1, 13, 8}[:zz.Param("mixfams", 6)]
	t := zz.Choice("shape", zz.Param("mixshapes", 8))
	e := zzShape(t, func() *zzExpr { return zzLeafByFamily(fams[zz.Choice("leaf", len(fams))]) })
	s := zzNewStream(zz.Param("events", 2), 4)
	zzCheckEquiv(e, s)
}

// protocol leaves (cleanFlagConditions runs 2^16-step loops per clean)
func ZZ_C03_Proto() {
	zzInstallParsers()
	zz.MaxInstr(2_000_000_000)
	zz.LoopBound(4_000_000)
	fams := []int{10, 4}
	t := zz.Choice("shape", zz.Param("protoshapes", 8))
	e := zzShape(t, func() *zzExpr { return zzLeafByFamily(fams[zz.Choice("leaf", len(fams))]) })
	s := zzNewStream(0, 4)
	zzCheckEquiv(e, s)
}

// time leaves: relative durations (symbolic) and absolute sample dates mixed
func ZZ_C03_Time() {
	zzInstallParsers()
	keys := []string{"ftime", "ltime", "time"}
	t := zz.Choice("shape", zz.Param("timeshapes", 8))
	e := zzShape(t, func() *zzExpr {
		return zzTimeLeaf(keys[zz.Choice("timekey", zz.Param("timekeys", 3))], zz.Choice("timeform", 5))
	})
	s := zzNewStream(0, 4)
	zzCheckEquiv(e, s)
}

// zzArithFilter: key:<sum>, key:<sum>: or key::<sum>, the sum mixing one
// symbolic literal with the stream's own attributes (@cport@, @cbytes@, ...)
// under symbolic signs: the normaliser collects equal summands, drops those
// that cancel, divides by common factors and must round the bound correctly.
func zzArithFilter() *zzExpr {
	keys := []string{"cport", "cbytes", "sbytes"}
	key := keys[zz.Choice("ar.key", len(keys))]
	attr := zzNumAttrs(key)[0]
	form := zz.Choice("ar.form", 3) // 0: x == sum, 1: x >= sum, 2: x <= sum
	v := &numberRangeListParser{}
	v.List = zzGrow(v.List)
	v.List[0].Range = zzGrow(v.List[0].Range)
	if form != 0 {
		v.List[0].Range = zzGrow(v.List[0].Range)
	}
	r := 0
	if form == 2 {
		r = 1
	}
	nparts := 1 + zz.Choice("ar.parts", zz.Param("arithparts", 3))
	text := ""
	type part struct {
		neg bool
		lit int
		v   NumberConditionSummandType
		isV bool
	}
	var parts []part
	for i := 0; i < nparts; i++ {
		v.List[0].Range[r].Parts = zzGrow(v.List[0].Range[r].Parts)
		p := &v.List[0].Range[r].Parts[i]
		pt := part{neg: zz.Choice("ar.neg", 2) == 1}
		if pt.neg {
			p.Operators = "-"
			text += "-"
		} else if i > 0 {
			p.Operators = "+"
			text += "+"
		}
		if k := zz.Choice("ar.kind", 1+len(keys)); k == 0 {
			pt.lit = zz.Range("ar.n", 0, 63)
			p.Number = pt.lit
			text += fmt.Sprintf("%d", pt.lit)
		} else {
			pt.isV, pt.v = true, zzNumAttrs(keys[k-1])[0]
			p.Variable = &variableParser{Name: keys[k-1]}
			text += "@" + keys[k-1] + "@"
		}
		parts = append(parts, pt)
	}
	switch form {
	case 1:
		text += ":"
	case 2:
		text = ":" + text
	}
	e := &zzExpr{kind: zzLeaf, text: key + ":" + text}
	e.truth = func(s *zzStream) bool {
		sum := 0
		for _, pt := range parts {
			x := pt.lit
			if pt.isV {
				x = zzNumAttr(s, pt.v)
			}
			if pt.neg {
				sum -= x
			} else {
				sum += x
			}
		}
		x := zzNumAttr(s, attr)
		switch form {
		case 0:
			return x == sum
		case 1:
			return x >= sum
		}
		return x <= sum
	}
	val := text
	if zz.Symbolic() {
		val = zzKey()
		zzNumTable[val] = v
	}
	e.term = &queryTerm{Key: key, Value: val}
	return e
}

// arithmetic number filters, plain and negated, alone and next to a second one
func ZZ_C03_Arith() {
	zzInstallParsers()
	e := zzArithFilter()
	switch zz.Choice("shape", zz.Param("arithshapes", 3)) {
	case 1:
		e = zzN(e)
	case 2:
		e = zzA(e, zzN(zzArithFilter()))
	}
	s := zzNewStream(0, 4)
	zzCheckEquiv(e, s)
}
