//go:build verif

package index

// C07: merging index files is invisible — same visible streams (newest
// version per id), same metadata, payload and packet references.

import (
	pcapmetadata "github.com/spq/pkappa2/internal/tools/pcapMetadata"
	zz "github.com/spq/pkappa2/internal/zzverif"
)

// zzLookup finds the newest version of id in a stack (older first).
func zzLookup(stack []*Reader, id uint64) (*Reader, *Stream) {
	for i := len(stack) - 1; i >= 0; i-- {
		s, err := stack[i].StreamByID(id)
		zz.Assert(err == nil, "lookup.noerr")
		if s != nil {
			return stack[i], s
		}
	}
	return nil, nil
}

func ZZ_C07_Merge() {
	infos := []*pcapmetadata.PcapInfo{{Filename: "f0.pcap"}, {Filename: "f1.pcap"}}
	dir := zz.TempDir()
	nFiles := 2 + zz.Choice("files", zz.Param("mergefiles", 1))
	ids := []uint64{7, 9, 1 << 40}
	var stack []*Reader
	newest := map[uint64]zzWantStream{}
	firstPackets := map[uint64]bool{}
	for f := 0; f < nFiles; f++ {
		w, err := NewWriter(dir + "/in" + string(rune('0'+f)) + ".idx")
		zz.Assert(err == nil, "newwriter.noerr")
		if err != nil {
			return
		}
		n := 1 + zz.Choice("streams", zz.Param("streams", 2))
		used := map[uint64]bool{}
		for i := 0; i < n; i++ {
			tag := string(rune('a'+f)) + string(rune('0'+i))
			s := zzMkStream(tag, infos[:zz.Param("files", 2)], false)
			id := ids[zz.Choice("id", zz.Param("ids", 2))]
			if used[id] {
				zz.Assume(false) // one version per id and file
			}
			used[id] = true
			md := pcapmetadata.FromPacketMetadata(&s.Packets[0])
			_ = md
			ok, err := w.AddStream(s, id)
			zz.Assert(err == nil && ok, "addstream.accepted")
			newest[id] = zzWantStream{s, id}
		}
		r, err := w.Finalize()
		zz.Assert(err == nil && r != nil, "finalize.noerr")
		if r == nil {
			return
		}
		stack = append(stack, r)
	}
	_ = firstPackets
	// before: every id resolves to its newest version
	for id, want := range newest {
		r, s := zzLookup(stack, id)
		zz.Assert(s != nil, "before.visible")
		if s != nil {
			zzCheckStreamNoSource(r, want)
		}
	}
	// merge a suffix of the stack
	from := zz.Choice("mergefrom", nFiles-1)
	merged, err := Merge(dir, stack[from:])
	zz.Assert(err == nil, "merge.noerr")
	if err != nil {
		return
	}
	zz.Observe("merged-files", len(merged))
	after := append(append([]*Reader(nil), stack[:from]...), merged...)
	total := 0
	for _, r := range merged {
		total += r.StreamCount()
	}
	wantInSuffix := map[uint64]bool{}
	for _, r := range stack[from:] {
		for id := range r.StreamIDs() {
			wantInSuffix[id] = true
		}
	}
	zz.Assert(total == len(wantInSuffix), "merge.one-version-per-id")
	for id, want := range newest {
		r, s := zzLookup(after, id)
		zz.Assert(s != nil, "after.visible")
		if s != nil {
			zzCheckStreamNoSource(r, want)
		}
	}
	for _, id := range ids {
		if _, ok := newest[id]; !ok {
			_, s := zzLookup(after, id)
			zz.Assert(s == nil, "after.nothing-new")
		}
	}
	if zz.Param("remerge", 0) == 1 && from > 0 {
		// the merge result is merged again, with the older files below it
		again, err := Merge(dir, after)
		zz.Assert(err == nil, "remerge.noerr")
		if err != nil {
			return
		}
		total := 0
		for _, r := range again {
			total += r.StreamCount()
		}
		zz.Assert(total == len(newest), "remerge.one-version-per-id")
		for id, want := range newest {
			r, s := zzLookup(again, id)
			zz.Assert(s != nil, "remerge.visible")
			if s != nil {
				zzCheckStreamNoSource(r, want)
			}
		}
	}
}

// zzCheckStreamNoSource: zzCheckStream without the first-packet-source lookup
// (two versions of a stream share their first packet).
func zzCheckStreamNoSource(r *Reader, w zzWantStream) {
	zzSkipSourceLookup = true
	zzCheckStream(r, w)
	zzSkipSourceLookup = false
}

var zzSkipSourceLookup bool
