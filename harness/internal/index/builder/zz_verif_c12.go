//go:build verif

package builder

// C12 (file-format slice): the snapshot file round-trips, and a cut
// snapshot file is an error rather than a panic or partial state.

import (
	"time"

	zz "github.com/spq/pkappa2/internal/zzverif"
)

func ZZ_C12_Snapshots() {
	path := zz.TempDir() + "/snapshots"
	n := 1 + zz.Choice("snapshots", 2)
	var in []*snapshot
	for i := 0; i < n; i++ {
		ss := &snapshot{timestamp: time.Unix(1700000000+int64(i), 123456789).UTC(), chunkCount: zz.U64("chunks"), referencedPackets: map[string][]uint64{}}
		for _, fn := range []string{"a.pcap", "longer-name.pcapng"}[:1+zz.Choice("files", 2)] {
			pk := make([]uint64, zz.Choice("packets", 3))
			for k := range pk {
				pk[k] = zz.U64("pkt")
			}
			ss.referencedPackets[fn] = pk
		}
		in = append(in, ss)
	}
	zz.Assert(saveSnapshots(path, in) == nil, "save.noerr")
	size := zz.FSSize(path)
	cut := zz.Choice("cut", 2)
	if cut == 1 {
		at := zz.Choice("cutpos", size)
		zz.FSTruncate(path, at)
		out, err := loadSnapshots(path)
		zz.Assert(err != nil && out == nil, "cut-snapshot-file-is-an-error")
		return
	}
	out, err := loadSnapshots(path)
	zz.Assert(err == nil, "load.noerr")
	zz.Assert(len(out) == len(in), "load.count")
	if len(out) != len(in) {
		return
	}
	for i := range in {
		zz.Assert(out[i].timestamp.Equal(in[i].timestamp), "load.timestamp")
		zz.Assert(out[i].chunkCount == in[i].chunkCount, "load.chunkcount")
		zz.Assert(len(out[i].referencedPackets) == len(in[i].referencedPackets), "load.files")
		for fn, pk := range in[i].referencedPackets {
			got := out[i].referencedPackets[fn]
			zz.Assert(len(got) == len(pk), "load.packets")
			for k := range pk {
				if k < len(got) {
					zz.Assert(got[k] == pk[k], "load.packet")
				}
			}
		}
	}
}
