//go:build verif

package manager

// C11: tag management calls are total, atomic, and keep the tag graph
// well-formed. The real AddTag / UpdateTag / DelTag run against a Manager
// whose service loop is the real `for f := range mgr.jobs { f() }` goroutine
// (engine: cooperative scheduler; native: real goroutines).

import (
	"fmt"
	"os"
	"path/filepath"
	"sort"
	"strings"

	"github.com/spq/pkappa2/internal/index"
	"github.com/spq/pkappa2/internal/index/builder"
	"github.com/spq/pkappa2/internal/index/converters"
	"github.com/spq/pkappa2/internal/query"
	"github.com/spq/pkappa2/internal/tools/bitmask"
	zz "github.com/spq/pkappa2/internal/zzverif"
)

const zzMgr = "(*github.com/spq/pkappa2/internal/index/manager.Manager)."

// zzDefs: tag definitions with the normal form the real parser produces for
// them (engine: query.Parse is a table look-up, the grammar stage is not
// encodable; native: the real parser runs on the same text).
func zzTagCond(sub, name string) query.Condition {
	return &query.TagCondition{SubQuery: sub, TagName: name, Accept: query.TagConditionAcceptMatching | query.TagConditionAcceptUncertainMatching}
}

func zzNum(t query.NumberConditionSummandType, factor, number int) query.Condition {
	return &query.NumberCondition{Summands: []query.NumberConditionSummand{{Type: t, Factor: factor}}, Number: number}
}

var zzDefTexts = []string{
	"sport:123",                 // 0 plain filter
	"tag:a",                     // 1 references tag/a
	"tag:b",                     // 2 references tag/b
	"tag:a tag:b",               // 3 references both
	"tag:missing",               // 4 references a tag that does not exist
	"id:1,2",                    // 5 id-only (valid for marks)
	"@s:tag:a @s:sport:1 sport:2", // 6 references tag/a from a sub-query
	"((",                        // 7 unparsable
	"tag:c",                     // 8 references tag/c
	"tag:a tag:missing",         // 9 one existing and one missing reference
	"@s:tag:b @s:sport:1 sport:2", // 10 references tag/b from a sub-query
}

func zzDefQuery(text string) (*query.Query, error) {
	sp := query.NumberConditionSummandTypeServerPort
	id := query.NumberConditionSummandTypeID
	switch text {
	case "sport:123":
		return &query.Query{Conditions: query.ConditionsSet{{zzNum(sp, 1, -123), zzNum(sp, -1, 123)}}}, nil
	case "tag:a":
		return &query.Query{Conditions: query.ConditionsSet{{zzTagCond("", "tag/a")}}}, nil
	case "tag:b":
		return &query.Query{Conditions: query.ConditionsSet{{zzTagCond("", "tag/b")}}}, nil
	case "tag:c":
		return &query.Query{Conditions: query.ConditionsSet{{zzTagCond("", "tag/c")}}}, nil
	case "tag:a tag:b":
		return &query.Query{Conditions: query.ConditionsSet{{zzTagCond("", "tag/a"), zzTagCond("", "tag/b")}}}, nil
	case "cbytes:N:":
		return &query.Query{Conditions: query.ConditionsSet{{zzNum(query.NumberConditionSummandTypeClientBytes, 1, -zzThreshold)}}}, nil
	case "sport:443":
		return &query.Query{Conditions: query.ConditionsSet{{zzNum(sp, 1, -443), zzNum(sp, -1, 443)}}}, nil
	case "id:0:":
		return &query.Query{Conditions: query.ConditionsSet{{zzNum(id, 1, 0)}}}, nil
	case "service:web":
		return &query.Query{Conditions: query.ConditionsSet{{zzTagCond("", "service/web")}}}, nil
	case zzSubDef:
		cp := query.NumberConditionSummandTypeClientPort
		return &query.Query{Conditions: query.ConditionsSet{{
			&query.NumberCondition{Summands: []query.NumberConditionSummand{{SubQuery: "s", Type: cp, Factor: 1}}, Number: -1000},
			&query.NumberCondition{Summands: []query.NumberConditionSummand{{SubQuery: "s", Type: cp, Factor: -1}}, Number: 1000},
			&query.NumberCondition{Summands: []query.NumberConditionSummand{{Type: cp, Factor: 1}, {SubQuery: "s", Type: cp, Factor: -1}}, Number: 0},
		}}}, nil
	case "mark:m":
		return &query.Query{Conditions: query.ConditionsSet{{zzTagCond("", "mark/m")}}}, nil
	case "sport:9":
		return &query.Query{Conditions: query.ConditionsSet{{zzNum(sp, 1, -9), zzNum(sp, -1, 9)}}}, nil
	case "sport:80":
		return &query.Query{Conditions: query.ConditionsSet{{zzNum(sp, 1, -80), zzNum(sp, -1, 80)}}}, nil
	case "tag:a tag:missing":
		return &query.Query{Conditions: query.ConditionsSet{{zzTagCond("", "tag/a"), zzTagCond("", "tag/missing")}}}, nil
	case "tag:missing":
		return &query.Query{Conditions: query.ConditionsSet{{zzTagCond("", "tag/missing")}}}, nil
	case "id:1,2":
		return &query.Query{Conditions: query.ConditionsSet{{zzNum(id, 1, -1), zzNum(id, -1, 2)}}}, nil
	case "@s:tag:a @s:sport:1 sport:2", "@s:tag:b @s:sport:1 sport:2":
		return &query.Query{Conditions: query.ConditionsSet{{zzTagCond("s", "tag/"+text[7:8]),
			&query.NumberCondition{Summands: []query.NumberConditionSummand{{SubQuery: "s", Type: sp, Factor: 1}}, Number: -1},
			&query.NumberCondition{Summands: []query.NumberConditionSummand{{SubQuery: "s", Type: sp, Factor: -1}}, Number: 1},
			zzNum(sp, 1, -2), zzNum(sp, -1, 2)}}}, nil
	}
	if strings.HasPrefix(text, "id:") {
		// mark tags re-parse "id:n,m,..." lists
		var cs query.ConditionsSet
		for _, part := range strings.Split(text[3:], ",") {
			n := 0
			fmt.Sscanf(part, "%d", &n)
			cs = append(cs, query.Conditions{zzNum(id, 1, -n), zzNum(id, -1, n)})
		}
		return &query.Query{Conditions: cs.Clean()}, nil
	}
	return nil, fmt.Errorf("zz: cannot parse %q", text)
}

// zzNewManager builds a Manager the way New() does, without watchers,
// converters and stored state, and starts the real service loop.
// zzRoot: where the service keeps its directories (default: the replay's
// temporary directory); zzRealState: saveState is the real one in the engine
// too (restart scenarios; the document goes through the typed json codec).
var (
	zzRoot      string
	zzRealState bool
)

func zzNewManager(nStreams uint64) *Manager {
	root := zzRoot
	if root == "" {
		root = zz.TempDir()
	}
	mgr := &Manager{
		StateDir:            root,
		usedIndexes:         make(map[*index.Reader]uint),
		tags:                make(map[string]*tag),
		converters:          make(map[string]*converters.CachedConverter),
		streamsToConvert:    make(map[string]*bitmask.LongBitmask),
		jobs:                make(chan func()),
		listeners:           make(map[chan Event]listener),
		updatedTagsToSignal: make(map[string]struct{}),
		updatedTagsDone:     make(chan struct{}),
	}
	mgr.nextStreamID = nStreams
	for i := uint64(0); i < nStreams; i++ {
		mgr.allStreams.Set(uint(i))
	}
	if !zz.Symbolic() {
		// natively saveState and the job starters are the real ones
		for _, d := range []string{"pcaps", "idx", "snap"} {
			os.MkdirAll(filepath.Join(mgr.StateDir, d), 0o755)
		}
		mgr.PcapDir, mgr.IndexDir, mgr.SnapshotDir = filepath.Join(mgr.StateDir, "pcaps"), filepath.Join(mgr.StateDir, "idx"), filepath.Join(mgr.StateDir, "snap")
		b, err := builder.New(mgr.PcapDir, mgr.IndexDir, mgr.SnapshotDir, nil)
		if err != nil {
			panic(err)
		}
		mgr.builder = b
	}
	if zz.Symbolic() {
		zz.Override("github.com/spq/pkappa2/internal/query.Parse", zzDefQuery)
		if !zzRealState {
			zz.Override(zzMgr+"saveState", func(m *Manager) error { return nil })
		}
		if zz.Param("realjobs", 0) == 0 {
			zz.Override(zzMgr+"startTaggingJobIfNeeded", func(m *Manager) {})
			zz.Override(zzMgr+"startConverterJobIfNeeded", func(m *Manager) {})
			zz.Override(zzMgr+"startMergeJobIfNeeded", func(m *Manager) {})
		}
	}
	go func() {
		for f := range mgr.jobs {
			f()
		}
	}()
	return mgr
}

// zzInService runs f inside the service loop and waits for it.
func zzInService(mgr *Manager, f func()) {
	c := make(chan struct{})
	mgr.jobs <- func() {
		f()
		close(c)
	}
	<-c
}

func zzDigest(mgr *Manager) string {
	var names []string
	for n := range mgr.tags {
		names = append(names, n)
	}
	sort.Strings(names)
	var sb strings.Builder
	for _, n := range names {
		t := mgr.tags[n]
		var refs []string
		for r := range t.referencedBy {
			refs = append(refs, r)
		}
		sort.Strings(refs)
		fmt.Fprintf(&sb, "%s|%s|%s|%v|%v|%v;", n, t.definition, t.color, refs, t.converterNames(), t.Matches.Mask())
	}
	return sb.String()
}

// zzCheckGraph asserts the well-formedness part of the property.
func zzCheckGraph(mgr *Manager) {
	for n, t := range mgr.tags {
		for _, r := range t.referencedTags() {
			rt, ok := mgr.tags[r]
			zz.Assert(ok, "graph.reference-exists")
			if ok {
				_, back := rt.referencedBy[n]
				zz.Assert(back, "graph.referencedby-mirrors-definition")
			}
		}
		for r := range t.referencedBy {
			rt, ok := mgr.tags[r]
			zz.Assert(ok, "graph.referencedby-names-existing-tag")
			if ok {
				found := false
				for _, x := range rt.referencedTags() {
					found = found || x == n
				}
				zz.Assert(found, "graph.referencedby-has-a-definition")
			}
		}
	}
	// acyclic: repeatedly remove tags without unresolved references
	left := map[string]bool{}
	for n := range mgr.tags {
		left[n] = true
	}
	for progress := true; progress; {
		progress = false
		for n := range left {
			free := true
			for _, r := range mgr.tags[n].referencedTags() {
				if left[r] {
					free = false
				}
			}
			if free {
				delete(left, n)
				progress = true
			}
		}
	}
	zz.Assert(len(left) == 0, "graph.acyclic")
}

func ZZ_C11_TagCalls() {
	zz.BoundIsViolation()
	zz.DeadlockIsViolation()
	zz.LoopBound(zz.Param("loopbound", 2000))
	mgr := zzNewManager(4)
	names := []string{"tag/a", "tag/b", "mark/m", "tag/c"}[:zz.Param("names", 3)]
	ndefs := zz.Param("defs", 8)
	ncalls := zz.Param("calls", 3)
	if zz.Param("prestate", 0) == 1 {
		// an arbitrary valid configuration of three tags (plain, referencing,
		// referencing from a sub-query), built in dependency order; the calls
		// under test start from it
		names = []string{"tag/a", "tag/b", "tag/c"}
		zz.Assert(mgr.AddTag("tag/a", "#111111", "sport:123") == nil, "prestate")
		zz.Assert(mgr.AddTag("tag/b", "#111111", []string{"sport:123", "tag:a", "@s:tag:a @s:sport:1 sport:2"}[zz.Choice("pre.b", 3)]) == nil, "prestate")
		zz.Assert(mgr.AddTag("tag/c", "#111111", []string{"sport:123", "tag:a", "tag:b", "tag:a tag:b", "@s:tag:b @s:sport:1 sport:2"}[zz.Choice("pre.c", 5)]) == nil, "prestate")
		zzInService(mgr, func() { zzCheckGraph(mgr) })
	}
	for step := 0; step < ncalls; step++ {
		var before string
		zzInService(mgr, func() { before = zzDigest(mgr) })
		var err error
		name := names[zz.Choice("name", len(names))]
		call := 0
		if zz.Param("callset", 0) == 0 {
			call = zz.Choice("call", zz.Param("allcallkinds", 6))
		} else {
			call = []int{0, 1, 4, 3}[zz.Choice("call3", zz.Param("callkinds", 3))]
		}
		switch call {
		case 0:
			err = mgr.AddTag(name, "#111111", zzDefTexts[zz.Param("deffrom", 0)+zz.Choice("def", ndefs)])
		case 1:
			err = mgr.UpdateTag(name, UpdateTagOperationUpdateQuery(zzDefTexts[zz.Param("deffrom", 0)+zz.Choice("def", ndefs)]))
		case 2:
			err = mgr.UpdateTag(name, UpdateTagOperationUpdateColor("#222222"))
		case 3:
			newName := []string{"tag/a", "tag/b", "tag/z", "mark/z", "tag/"}[zz.Choice("newname", 5)]
			err = mgr.UpdateTag(name, UpdateTagOperationUpdateName(newName))
		case 4:
			err = mgr.DelTag(name)
		case 5:
			// query and colour in one call: either both are applied or neither
			d := zzDefTexts[zz.Param("deffrom", 0)+zz.Choice("def", ndefs)]
			err = mgr.UpdateTag(name, func(i *updateTagOperationInfo) {
				UpdateTagOperationUpdateQuery(d)(i)
				UpdateTagOperationUpdateColor("#333333")(i)
				UpdateTagOperationMarkAddStream([]uint64{uint64(zz.Choice("markstream", 6))})(i)
			})
		case 6, 7: // mark / unmark one stream (ids 0..5; the service knows streams 0..3)
			ms := uint64(zz.Choice("markstream", 6))
			if call == 6 {
				err = mgr.UpdateTag(name, UpdateTagOperationMarkAddStream([]uint64{ms}))
			} else {
				err = mgr.UpdateTag(name, UpdateTagOperationMarkDelStream([]uint64{ms}))
			}
			if err == nil {
				zzInService(mgr, func() {
					t := mgr.tags[name]
					zz.Assert(t != nil && t.Matches.IsSet(uint(ms)) == (call == 6), "accepted-mark-change-is-applied")
				})
			}
		}
		zz.Cover("call-returned")
		zzInService(mgr, func() {
			if err != nil {
				zz.Assert(zzDigest(mgr) == before, "rejected-call-leaves-all-tags-unchanged")
			}
			zzCheckGraph(mgr)
		})
		// the public view agrees with the definitions
		for _, ti := range mgr.ListTags() {
			var t *tag
			zzInService(mgr, func() { t = mgr.tags[ti.Name] })
			zz.Assert(t != nil, "listtags.names-existing-tag")
			if t != nil {
				referenced := false
				zzInService(mgr, func() {
					for _, o := range mgr.tags {
						for _, r := range o.referencedTags() {
							referenced = referenced || r == ti.Name
						}
					}
				})
				zz.Assert(ti.Referenced == referenced, "listtags.referenced-mirrors-definitions")
			}
		}
	}
}
