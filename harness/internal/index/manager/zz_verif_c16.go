//go:build verif

package manager

// C16 (and the converter part of C09): converter output shown or searched for
// a stream is the converter's output for the stream's current payload; every
// stream matching a tag with an attached converter eventually has output;
// detaching stops further runs. The real attach/detach, startConverterJobIfNeeded,
// convertStreamJob with its completion, invalidateConverters, the real cached
// converter and cache file run; the converter process itself (os/exec, pipes,
// the JSON line protocol) is replaced in the engine by a scripted converter
// that computes the same function of the stream's payload as the executable
// the native replay really starts.

import (
	"os"

	"github.com/spq/pkappa2/internal/index"
	"github.com/spq/pkappa2/internal/index/converters"
	"github.com/spq/pkappa2/internal/query"
	"github.com/spq/pkappa2/internal/tools/bitmask"
	zz "github.com/spq/pkappa2/internal/zzverif"
)

// the converter: one client chunk holding the letter 'A' + (client bytes of the stream mod 26)
const zzConvScript = `#!/usr/bin/env python3
import sys, json, base64
while True:
    meta = sys.stdin.readline()
    if not meta:
        break
    n, t = 0, None
    while True:
        l = sys.stdin.readline()
        if l.strip() == "":
            break
        c = json.loads(l)
        if c["Direction"] == "client-to-server":
            n += len(base64.b64decode(c["Content"]))
        if t is None:
            t = c["Time"]
    out = {"Direction": "client-to-server", "Content": base64.b64encode(bytes([65 + n % 26])).decode(), "Time": t or "2023-11-14T22:13:20"}
    sys.stdout.write(json.dumps(out) + "\n\n" + meta.strip() + "\n")
    sys.stdout.flush()
`

func zzConvLetter(cbytes int) byte { return byte(65 + cbytes%26) }

func zzScriptedConverterData(_ any, stream *index.Stream, moreDetails bool) ([]index.Data, uint64, uint64, error) {
	packets, err := stream.Data()
	if err != nil {
		return nil, 0, 0, err
	}
	n := 0
	t := stream.FirstPacket()
	for i, p := range packets {
		if p.Direction == index.DirectionClientToServer {
			n += len(p.Content)
		}
		if i == 0 {
			t = p.Time
		}
	}
	return []index.Data{{Direction: index.DirectionClientToServer, Content: []byte{zzConvLetter(n)}, Time: t}}, 1, 0, nil
}

// zzAddConverter: what addConverter does for an executable named conv
func zzAddConverter(mgr *Manager) *converters.CachedConverter {
	path := mgr.StateDir + "/conv/conv.py"
	if !zz.Symbolic() {
		os.MkdirAll(mgr.StateDir+"/conv", 0o755)
		if err := os.WriteFile(path, []byte(zzConvScript), 0o755); err != nil {
			panic(err)
		}
	} else {
		zz.Override("(*github.com/spq/pkappa2/internal/index/converters.Converter).Data", zzScriptedConverterData)
		zz.Override("(*github.com/spq/pkappa2/internal/index/converters.Converter).Reset", func(_ any) {})
		zz.Override("(*github.com/spq/pkappa2/internal/index/converters.Converter).MaxProcessCount", func(_ any) int { return 2 })
	}
	var c *converters.CachedConverter
	zzInService(mgr, func() {
		var err error
		c, err = converters.NewCache("conv", path, mgr.IndexDir)
		zz.Assert(err == nil, "converter.cache-created")
		mgr.converters["conv"] = c
		mgr.streamsToConvert["conv"] = &bitmask.LongBitmask{}
	})
	return c
}

// zzCheckConverted: at quiescence every stream of a tag the converter is
// attached to has output, and whatever output is cached for any stream is
// the output for its current payload.
func zzCheckConverted(mgr *Manager, conv *converters.CachedConverter, model *zzWorld, label string) {
	zzInService(mgr, func() {
		zz.Assert(!mgr.converterJobRunning, label+".settled.no-converter-job")
		if s := mgr.streamsToConvert["conv"]; s != nil {
			zz.Assert(s.IsZero(), label+".settled.no-conversion-work-left")
		}
		for _, fs := range model.flows {
			attached := false
			for _, t := range mgr.tags {
				for _, c := range t.converters {
					attached = attached || (c == conv && t.Matches.IsSet(uint(fs.id)))
				}
			}
			has := conv.Contains(fs.id)
			if attached {
				zz.Assert(has, label+".converted.every-stream-of-an-attached-tag-has-output")
			}
			if has {
				bufs, _, cb, sb, cached, err := conv.DataForSearch(fs.id)
				zz.Assert(err == nil && cached, label+".converted.readable")
				zz.Assert(cb == 1 && sb == 0 && len(bufs[0]) == 1 && len(bufs[1]) == 0, label+".converted.shape")
				if len(bufs[0]) == 1 {
					zz.Assert(bufs[0][0] == zzConvLetter(fs.cbytes), label+".converted.output-is-for-the-current-payload")
				}
			}
		}
	})
}

func ZZ_C16_Converters() {
	zz.DeadlockIsViolation()
	zz.MaxInstr(3_000_000_000)
	caps := zzStdCaptures()
	mgr := zzService(caps)
	if mgr.IndexDir == "" {
		mgr.IndexDir = mgr.StateDir + "/idx"
	}
	model := zzNewWorld()
	imp := func(name string) {
		mgr.ImportPcaps([]string{name})
		for _, c := range caps {
			if c.name == name {
				model.apply(c)
			}
		}
	}
	scenario := zz.Choice("scenario", zz.Param("scenarios", 6))
	zzThreshold = zz.Range("threshold", 1, zz.Param("thresholdmax", 6))
	if scenario != 3 {
		// (a tag that looks at payload is re-evaluated after every converter job, and
		// the end of that tagging job starts pending converter work as well: scenario
		// 3 is about the converter job's own completion doing so)
		zz.Assert(mgr.AddTag("tag/big", "#111111", zzBigDef()) == nil, "addtag")
	}
	zz.Assert(mgr.AddTag("service/web", "#222222", "sport:80") == nil, "addtag")
	conv := zzAddConverter(mgr)
	attach := func(tag string) {
		zz.Assert(mgr.UpdateTag(tag, UpdateTagOperationSetConverter([]string{"conv"})) == nil, "attach")
	}
	detach := func(tag string) {
		zz.Assert(mgr.UpdateTag(tag, UpdateTagOperationSetConverter([]string{})) == nil, "detach")
	}
	check := func(label string) {
		zzSettle(mgr)
		zzCheckQuiescent(mgr, model, label)
		zzCheckConverted(mgr, conv, model, label)
	}
	// holdJob: what startConverterJobIfNeeded does when it starts a job; returns the job's arguments
	holdJob := func() (cs []*converters.CachedConverter, ids []*bitmask.LongBitmask, idxs []*index.Reader, rel indexReleaser, ok bool) {
		zzInService(mgr, func() {
			streams := mgr.streamsToConvert["conv"]
			if mgr.converterJobRunning || streams.IsZero() {
				return
			}
			mgr.streamsToConvert["conv"] = &bitmask.LongBitmask{}
			cs, ids = []*converters.CachedConverter{conv}, []*bitmask.LongBitmask{streams}
			idxs, rel = mgr.getIndexesCopy(0)
			mgr.converterJobRunning = true
			ok = true
		})
		return
	}

	switch scenario {
	case 0: // attach after imports; a later import extends a converted stream and adds a matching one
		imp("a.pcap")
		imp("b.pcap")
		zzSettle(mgr)
		attach("service/web")
		check("attached")
		imp("c.pcap")
		check("extended")
	case 1: // attach before anything is imported
		attach("service/web")
		imp("a.pcap")
		check("first")
		imp("c0.pcap")
		check("extended")
	case 2: // an import extends a stream while the converter job that is about to convert it is in flight
		imp("a.pcap")
		zzSettle(mgr)
		// no converter job may start by itself: one is "running"
		zzInService(mgr, func() { mgr.converterJobRunning = true })
		attach("service/web")
		zzInService(mgr, func() { mgr.converterJobRunning = false })
		cs, ids, idxs, rel, ok := holdJob()
		zz.Assert(ok, "scenario.converter-job-was-due")
		if !ok {
			return
		}
		imp("c0.pcap")
		zzWaitImports(mgr)
		mgr.convertStreamJob(cs, ids, idxs, rel) // the job finishes now, on the index files it was started with
		check("import-during-converter-job")
	case 3: // the converter is attached to a second tag while its job for the first is in flight
		imp("a.pcap")
		imp("b.pcap")
		zzSettle(mgr)
		zz.Assert(mgr.AddTag("service/tls", "#999999", "sport:443") == nil, "addtag")
		zzSettle(mgr)
		zzInService(mgr, func() { mgr.converterJobRunning = true })
		attach("service/web")
		zzInService(mgr, func() { mgr.converterJobRunning = false })
		cs, ids, idxs, rel, ok := holdJob()
		zz.Assert(ok, "scenario.converter-job-was-due")
		if !ok {
			return
		}
		attach("service/tls")
		mgr.convertStreamJob(cs, ids, idxs, rel)
		check("attached-during-converter-job")
	case 4: // detaching stops further runs
		imp("a.pcap")
		zzSettle(mgr)
		attach("service/web")
		check("attached")
		detach("service/web")
		imp("c.pcap")
		check("detached")
		zzInService(mgr, func() {
			for _, fs := range model.flows {
				zz.Assert(!conv.Contains(fs.id), "detached.no-output-of-a-detached-converter")
			}
		})
	case 6: // a capture arrives out of chronological order: the converted stream is rebuilt from an earlier first packet
		imp("a.pcap")
		zzSettle(mgr)
		attach("service/web")
		check("attached")
		imp("early.pcap")
		check("reset")
	case 7: // converter output is requested through a view that was taken before an import extended the stream
		imp("a.pcap")
		zzSettle(mgr)
		held := mgr.GetView()
		sc, err := held.Stream(0)
		zz.Assert(err == nil && sc.Stream() != nil, "scenario.view-has-stream-0")
		imp("c0.pcap")
		zzSettle(mgr)
		_, err = sc.Data("conv") // not cached: converted now, from the view's version of the stream
		zz.Assert(err == nil, "view.converter-data.noerr")
		held.Release()
		zzInService(mgr, func() {})
		check("converted-through-an-older-view")
	case 8: // the definition of a tag with the converter attached is edited: its new members get output too
		imp("a.pcap")
		imp("b.pcap")
		zzSettle(mgr)
		attach("service/web")
		check("attached")
		zz.Assert(mgr.UpdateTag("service/web", UpdateTagOperationUpdateQuery("sport:443")) == nil, "updatetag")
		check("definition-edited")
	case 9: // output of a converter attached to no tag is requested on demand; a later import extends the stream; then the converter is attached
		imp("a.pcap")
		zzSettle(mgr)
		v := mgr.GetView()
		sc, err := v.Stream(0)
		zz.Assert(err == nil && sc.Stream() != nil, "scenario.view-has-stream-0")
		_, err = sc.Data("conv")
		zz.Assert(err == nil, "ondemand.converter-data.noerr")
		v.Release()
		zzInService(mgr, func() { zz.Assert(conv.Contains(0), "scenario.on-demand-output-was-cached") })
		check("converted-on-demand")
		imp("c0.pcap")
		check("on-demand-then-extended")
		attach("service/web")
		check("on-demand-then-extended-then-attached")
	case 5: // the converter is restarted: everything is converted again
		imp("a.pcap")
		zzSettle(mgr)
		attach("service/web")
		check("attached")
		zzInService(mgr, func() { zz.Assert(mgr.restartConverterProcess(mgr.StateDir+"/conv/conv.py") == nil, "restart") })
		check("restarted")
	}
	_ = query.FeatureFilterData
}
