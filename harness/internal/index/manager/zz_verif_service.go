//go:build verif

package manager

// Service scenarios for C06 / C09 / C10 / C13: the real import, tagging and
// merge jobs with their completion closures run on the real service loop.
// The interleavings that matter (an import completing while a merge or a
// tagging job is in flight, an import that creates no index) are sequenced by
// the harness at job granularity, so that the same schedule is replayed
// natively with real goroutines, real capture files and the real importer.

import (
	"context"
	"net"
	"os"
	"strconv"
	"path/filepath"
	"sort"
	"time"

	"github.com/gopacket/gopacket"
	"github.com/gopacket/gopacket/layers"
	"github.com/gopacket/gopacket/pcapgo"
	"github.com/gopacket/gopacket/reassembly"
	"github.com/spq/pkappa2/internal/index"
	"github.com/spq/pkappa2/internal/index/streams"
	"github.com/spq/pkappa2/internal/query"
	"github.com/spq/pkappa2/internal/tools"
	"github.com/spq/pkappa2/internal/tools/bitmask"
	pcapmetadata "github.com/spq/pkappa2/internal/tools/pcapMetadata"
	zz "github.com/spq/pkappa2/internal/zzverif"
)

// a UDP datagram of a capture
type zzPkt struct {
	flow    int // flow number: client 10.0.0.(flow+1):1000+flow -> server 10.0.1.1:sport
	sport   uint16
	payload int // bytes sent by the client
	at      time.Duration
}

type zzCapture struct {
	name string
	pkts []zzPkt
}

// the model: cumulative state of every flow over the processed captures
type zzFlowState struct {
	id     uint64
	sport  uint16
	cbytes int
	pkts   []zzPkt
	files  []string
	index  []uint64
}

type zzWorld struct {
	flows  map[int]*zzFlowState
	order  []int
	nextID uint64
	resets []uint64 // streams whose first packet moved (a capture arrived out of order)
}

var zzEpoch = time.Unix(1700000000, 0).UTC()

// ---------------------------------------------------------------- native: real capture files

func zzWritePcap(dir string, c zzCapture) {
	f, err := os.Create(filepath.Join(dir, c.name))
	if err != nil {
		panic(err)
	}
	defer f.Close()
	w := pcapgo.NewWriter(f)
	w.WriteFileHeader(65536, layers.LinkTypeEthernet)
	for _, p := range c.pkts {
		eth := &layers.Ethernet{SrcMAC: net.HardwareAddr{2, 0, 0, 0, 0, 1}, DstMAC: net.HardwareAddr{2, 0, 0, 0, 0, 2}, EthernetType: layers.EthernetTypeIPv4}
		ip := &layers.IPv4{Version: 4, IHL: 5, TTL: 64, Protocol: layers.IPProtocolUDP, SrcIP: net.IP{10, 0, 0, byte(p.flow + 1)}, DstIP: net.IP{10, 0, 1, 1}}
		udp := &layers.UDP{SrcPort: layers.UDPPort(1000 + p.flow), DstPort: layers.UDPPort(p.sport)}
		udp.SetNetworkLayerForChecksum(ip)
		payload := make([]byte, p.payload)
		for i := range payload {
			payload[i] = 'a' + byte(i%26)
		}
		buf := gopacket.NewSerializeBuffer()
		gopacket.SerializeLayers(buf, gopacket.SerializeOptions{FixLengths: true, ComputeChecksums: true}, eth, ip, udp, gopacket.Payload(payload))
		w.WritePacket(gopacket.CaptureInfo{Timestamp: zzEpoch.Add(p.at), CaptureLength: len(buf.Bytes()), Length: len(buf.Bytes())}, buf.Bytes())
	}
}

// ---------------------------------------------------------------- engine: scripted importer

var (
	zzCaptures map[string]zzCapture
	zzImported *zzWorld // importer-side state (what the real Builder keeps)
)

func (w *zzWorld) apply(c zzCapture) (touched []int, added, updated []uint64) {
	seen := map[int]bool{}
	for i, p := range c.pkts {
		fs := w.flows[p.flow]
		if fs != nil && len(fs.pkts) > 0 && p.at < fs.pkts[0].at {
			w.resets = append(w.resets, fs.id)
		}
		if fs == nil {
			fs = &zzFlowState{id: w.nextID, sport: p.sport}
			w.nextID++
			w.flows[p.flow] = fs
			w.order = append(w.order, p.flow)
			added = append(added, fs.id)
		} else if !seen[p.flow] {
			updated = append(updated, fs.id)
		}
		if !seen[p.flow] {
			seen[p.flow] = true
			touched = append(touched, p.flow)
		}
		fs.cbytes += p.payload
		pos := len(fs.pkts)
		for pos > 0 && fs.pkts[pos-1].at > p.at {
			pos--
		}
		fs.pkts = append(fs.pkts[:pos], append([]zzPkt{p}, fs.pkts[pos:]...)...)
		fs.files = append(fs.files[:pos], append([]string{c.name}, fs.files[pos:]...)...)
		fs.index = append(fs.index[:pos], append([]uint64{uint64(i)}, fs.index[pos:]...)...)
	}
	// a flow that was both created and touched again in this capture is "added"
	var upd []uint64
	for _, u := range updated {
		isAdded := false
		for _, a := range added {
			isAdded = isAdded || a == u
		}
		if !isAdded {
			upd = append(upd, u)
		}
	}
	return touched, added, upd
}

func zzNewWorld() *zzWorld { return &zzWorld{flows: map[int]*zzFlowState{}} }

// zzScriptedFromPcap stands in for Builder.FromPcap (cgo libpcap): it writes,
// with the real Writer, the index the importer would produce.
func zzScriptedFromPcap(indexDir string) func(pcapDir string, filenames []string, existing []*index.Reader) (int, uint64, []*index.Reader, *bitmask.LongBitmask, *bitmask.LongBitmask, *bitmask.LongBitmask, error) {
	return func(pcapDir string, filenames []string, existing []*index.Reader) (int, uint64, []*index.Reader, *bitmask.LongBitmask, *bitmask.LongBitmask, *bitmask.LongBitmask, error) {
		upd, reset, add := &bitmask.LongBitmask{}, &bitmask.LongBitmask{}, &bitmask.LongBitmask{}
		before := zzImported.nextID
		var touchedAll []int
		infos := map[string]*pcapmetadata.PcapInfo{}
		for _, fn := range filenames {
			c := zzCaptures[fn]
			zzImported.resets = nil
			touched, added, updated := zzImported.apply(c)
			for _, rs := range zzImported.resets {
				reset.Set(uint(rs))
			}
			for _, t := range touched {
				dup := false
				for _, o := range touchedAll {
					dup = dup || o == t
				}
				if !dup {
					touchedAll = append(touchedAll, t)
				}
			}
			for _, a := range added {
				add.Set(uint(a))
			}
			for _, u := range updated {
				if !reset.IsSet(uint(u)) {
					upd.Set(uint(u))
				}
			}
		}
		if len(touchedAll) == 0 {
			return len(filenames), 0, nil, upd, reset, add, nil
		}
		w, err := index.NewWriter(tools.MakeFilename(indexDir, "idx"))
		if err != nil {
			return len(filenames), 0, nil, upd, reset, add, err
		}
		for _, fl := range touchedAll {
			fs := zzImported.flows[fl]
			s := &streams.Stream{ClientAddr: []byte{10, 0, 0, byte(fl + 1)}, ServerAddr: []byte{10, 0, 1, 1}, ClientPort: uint16(1000 + fl), ServerPort: fs.sport, Flags: streams.StreamFlagsProtocolUDP}
			for i, p := range fs.pkts {
				info := infos[fs.files[i]]
				if info == nil {
					info = &pcapmetadata.PcapInfo{Filename: fs.files[i]}
					infos[fs.files[i]] = info
				}
				ci := gopacket.CaptureInfo{Timestamp: zzEpoch.Add(p.at)}
				pcapmetadata.AddPcapMetadata(&ci, info, fs.index[i])
				s.Packets = append(s.Packets, ci)
				s.PacketDirections = append(s.PacketDirections, reassembly.TCPDirClientToServer)
				if p.payload > 0 {
					b := make([]byte, p.payload)
					for k := range b {
						b[k] = 'a' + byte(k%26)
					}
					s.Data = append(s.Data, streams.StreamData{Bytes: b, PacketIndex: uint64(i)})
				}
			}
			if ok, err := w.AddStream(s, fs.id); !ok || err != nil {
				return len(filenames), 0, nil, upd, reset, add, err
			}
		}
		r, err := w.Finalize()
		if err != nil {
			return len(filenames), 0, nil, upd, reset, add, err
		}
		return len(filenames), zzImported.nextID - before, []*index.Reader{r}, upd, reset, add, nil
	}
}

// ---------------------------------------------------------------- the service under test

// zzKnownPcaps is what the (scripted) importer reports as known capture files.
var zzKnownPcaps []*pcapmetadata.PcapInfo

func zzService(captures []zzCapture) *Manager {
	zzKnownPcaps = nil
	zzCaptures = map[string]zzCapture{}
	for _, c := range captures {
		zzCaptures[c.name] = c
	}
	zzImported = zzNewWorld()
	mgr := zzNewManager(0)
	mgr.pcapOverIPCmd = make(chan pcapOverIPCmd, 1)
	mgr.pcapOverIPPackets = make(chan pcapOverIPPacket, 1)
	go func() { // stands in for pcapOverIPPacketHandler: drains the flush commands
		for range mgr.pcapOverIPCmd {
		}
	}()
	if zz.Symbolic() {
		mgr.IndexDir = mgr.StateDir + "/idx"
		const b = "(*github.com/spq/pkappa2/internal/index/builder.Builder)."
		zz.Override(b+"FromPcap", func(_ any, pcapDir string, filenames []string, existing []*index.Reader) (int, uint64, []*index.Reader, *bitmask.LongBitmask, *bitmask.LongBitmask, *bitmask.LongBitmask, error) {
			return zzScriptedFromPcap(mgr.IndexDir)(pcapDir, filenames, existing)
		})
		zz.Override(b+"KnownPcaps", func(_ any) []*pcapmetadata.PcapInfo { return zzKnownPcaps })
		zz.Override(b+"PacketCount", func(_ any) uint { return 0 })
		zz.Override(zzMgr+"newPcapOverIPEndpoint", func(m *Manager, ctx context.Context, address string) *pcapOverIPEndpoint {
			// the connecting goroutine (network) is left out
			return &pcapOverIPEndpoint{PcapOverIPEndpointInfo: PcapOverIPEndpointInfo{Address: address}, cancel: func() {}}
		})
		zz.Override(zzMgr+"triggerPcapProcessedWebhooks", func(m *Manager, f []string) {})
	} else {
		for _, c := range captures {
			zzWritePcap(mgr.PcapDir, c)
		}
	}
	return mgr
}

// zzSettle waits until no job is running and nothing is queued (C09: this
// must happen within a bounded number of service-loop rounds).
func zzSettle(mgr *Manager) {
	rounds := 150
	if !zz.Symbolic() {
		rounds = 10000 // natively: up to 20 s of wall time on a loaded machine
	}
	for round := 0; round < rounds; round++ {
		st := mgr.Status()
		if st.ImportJobCount == 0 && !st.MergeJobRunning && !st.TaggingJobRunning && !st.ConverterJobRunning {
			// one more look: the completion of a job may have started the next
			st = mgr.Status()
			if st.ImportJobCount == 0 && !st.MergeJobRunning && !st.TaggingJobRunning && !st.ConverterJobRunning {
				return
			}
		}
		time.Sleep(2 * time.Millisecond)
	}
	zz.Assert(false, "settles.background-work-finishes")
}

func zzWaitImports(mgr *Manager) {
	rounds := 400
	if !zz.Symbolic() {
		rounds = 10000
	}
	for round := 0; round < rounds; round++ {
		if mgr.Status().ImportJobCount == 0 {
			return
		}
		time.Sleep(2 * time.Millisecond)
	}
	zz.Assert(false, "settles.import-finishes")
}

// zzCheckQuiescent: everything the four properties say about a settled service.
func zzCheckQuiescent(mgr *Manager, model *zzWorld, label string) {
	// C13: every served file is held exactly once (the base lock), nothing else is
	// held, and the directory contains exactly the served files
	var served []string
	zzInService(mgr, func() {
		for _, idx := range mgr.indexes {
			served = append(served, idx.Filename())
			zz.Assert(mgr.usedIndexes[idx] == 1, label+".locks.served-file-held-exactly-once")
		}
		zz.Assert(len(mgr.usedIndexes) == len(mgr.indexes), label+".locks.nothing-else-held")
		zz.Assert(!mgr.mergeJobRunning && !mgr.taggingJobRunning && !mgr.converterJobRunning && len(mgr.importJobs) == 0, label+".settled.no-job-flag-left")
		for _, t := range mgr.tags {
			zz.Assert(t.Uncertain.IsZero(), label+".settled.no-pending-streams")
		}
	})
	var onDisk []string
	for _, f := range zz.FSList(mgr.IndexDir) {
		if f == zzHalfWritten {
			continue // left behind by a killed writer: not served, nobody's to delete (C12)
		}
		if filepath.Ext(f) == ".idx" {
			onDisk = append(onDisk, f)
		}
	}
	var servedBase []string
	for _, s := range served {
		servedBase = append(servedBase, filepath.Base(s))
	}
	sort.Strings(onDisk)
	sort.Strings(servedBase)
	zz.Assert(len(onDisk) == len(servedBase), label+".files.directory-holds-exactly-the-served-files")
	if len(onDisk) == len(servedBase) {
		for i := range onDisk {
			zz.Assert(onDisk[i] == servedBase[i], label+".files.directory-holds-exactly-the-served-files")
		}
	}
	zz.Assert(zz.FSBadUse() == 0, label+".files.no-read-of-a-closed-file")

	// C10: a view contains every stream of every processed capture exactly once, newest version
	v := mgr.GetView()
	got := map[uint64]int{}
	cbytes := map[uint64]uint64{}
	err := v.AllStreams(context.Background(), func(sc StreamContext) error {
		got[sc.Stream().ID()]++
		cbytes[sc.Stream().ID()] = sc.Stream().ClientBytes
		return nil
	})
	zz.Assert(err == nil, label+".view.noerr")
	zz.Assert(len(got) == len(model.flows), label+".view.every-stream-visible")
	for _, fs := range model.flows {
		zz.Assert(got[fs.id] == 1, label+".view.each-stream-once")
		zz.Assert(cbytes[fs.id] == uint64(fs.cbytes), label+".view.newest-version")
	}
	// the same view keeps answering the same
	again := 0
	v.AllStreams(context.Background(), func(sc StreamContext) error { again++; return nil })
	zz.Assert(again == len(got), label+".view.stable")
	v.Release()
	zzInService(mgr, func() {}) // let the release be processed

	// C11: the tag graph is well-formed
	zzInService(mgr, func() { zzCheckGraph(mgr) })

	// C06: decided tag membership equals the definition evaluated on the current data
	zzInService(mgr, func() {
		for name, t := range mgr.tags {
			for _, fs := range model.flows {
				if t.Uncertain.IsSet(uint(fs.id)) {
					continue
				}
				want := false
				switch t.definition {
				case zzBigDef():
					want = fs.cbytes >= zzThreshold
				case "sport:80":
					want = fs.sport == 80
				case "sport:443":
					want = fs.sport == 443
				case "sport:9":
					want = false
				case "mark:m":
					want = mgr.tags["mark/m"].Matches.IsSet(uint(fs.id))
				case "id:0", "id:0,1":
					want = fs.id == 0 || (t.definition == "id:0,1" && fs.id == 1)
				case zzSubDef:
					// streams whose client port is at least that of a stream with client port 1000 (flow 0)
					want = model.flows[0] != nil
				case "id:0:":
					want = true
				case "service:web":
					want = mgr.tags["service/web"].Matches.IsSet(uint(fs.id)) && (mgr.tags["service/web"].definition == "sport:80" && fs.sport == 80 || mgr.tags["service/web"].definition == "sport:443" && fs.sport == 443)
				}
				zz.Assert(t.Matches.IsSet(uint(fs.id)) == want, label+".tags.decided-membership-is-current ("+name+")")
			}
		}
	})
}

func zzStdCaptures() []zzCapture {
	ms := time.Millisecond
	// how much the first flow sends in its first and in its later datagrams is
	// symbolic (decided against the symbolic tag threshold by the solver)
	p0 := zz.Concretize(zz.Range("payload.first", 1, zz.Param("payloadmax", 3)))
	p1 := zz.Concretize(zz.Range("payload.later", 1, zz.Param("payloadmax", 3)))
	return []zzCapture{
		{"a.pcap", []zzPkt{{flow: 0, sport: 80, payload: p0, at: 0}}},
		{"b.pcap", []zzPkt{{flow: 1, sport: 443, payload: 4, at: 10 * ms}}},
		{"c.pcap", []zzPkt{{flow: 0, sport: 80, payload: p1, at: 20 * ms}, {flow: 2, sport: 80, payload: 1, at: 30 * ms}}},
		{"d.pcap", []zzPkt{{flow: 3, sport: 8080, payload: 5, at: 40 * ms}}},
		{"empty.pcap", nil},
		{"c0.pcap", []zzPkt{{flow: 0, sport: 80, payload: p1, at: 20 * ms}}},
		{"early.pcap", []zzPkt{{flow: 0, sport: 80, payload: 1, at: -10 * ms}}},
	}
}

var zzThreshold int

const zzSubDef = "@s:cport:1000 cport:@s:cport@:"

// zzHalfWritten: base name of an index file a killed writer left behind.
var zzHalfWritten string

// zzBigDef: "cbytes:N:" — natively the text with the model's N, in the engine a
// key whose parse-table entry carries the symbolic N.
func zzBigDef() string {
	if zz.Symbolic() {
		return "cbytes:N:"
	}
	return "cbytes:" + strconv.Itoa(zzThreshold) + ":"
}

// ZZ_SVC_Scenarios: imports, tagging and merging with the interleavings
// sequenced by the harness.
func ZZ_SVC_Scenarios() {
	zz.DeadlockIsViolation()
	zz.MaxInstr(3_000_000_000)
	caps := zzStdCaptures()
	mgr := zzService(caps)
	model := zzNewWorld()
	imp := func(name string) {
		mgr.ImportPcaps([]string{name})
		for _, c := range caps {
			if c.name == name {
				model.apply(c)
			}
		}
	}
	zzThreshold = zz.Range("threshold", 1, zz.Param("thresholdmax", 6))
	zz.Assert(mgr.AddTag("tag/big", "#111111", zzBigDef()) == nil, "addtag")
	zz.Assert(mgr.AddTag("service/web", "#222222", "sport:80") == nil, "addtag")
	if zz.Param("idtag", 1) == 1 {
		zz.Assert(mgr.AddTag("tag/all", "#333333", "id:0:") == nil, "addtag")
	}
	if zz.Param("subtag", 0) == 1 { // a tag whose definition has a sub-query: re-evaluated as a whole on every import
		zz.Assert(mgr.AddTag("tag/sub", "#666666", zzSubDef) == nil, "addtag")
	}
	scenario := zz.Choice("scenario", zz.Param("scenarios", 5))
	var early View
	earlyCount := 0
	if scenario == 7 { // a view first used before anything was imported
		early = mgr.GetView()
		early.AllStreams(context.Background(), func(sc StreamContext) error { earlyCount++; return nil })
	}
	imp("a.pcap")
	zzSettle(mgr)
	zzCheckQuiescent(mgr, model, "after-first-import")

	switch scenario {
	case 0: // plain sequence; the third index makes a merge eligible
		imp("b.pcap")
		zzSettle(mgr)
		imp("c.pcap")
		zzSettle(mgr)
		zzCheckQuiescent(mgr, model, "sequential")
		imp("d.pcap")
		zzSettle(mgr)
	case 1: // two imports queued back to back (the second waits for the first)
		imp("b.pcap")
		imp("c.pcap")
		zzSettle(mgr)
	case 2: // an import completes while a merge job is in flight
		imp("b.pcap")
		zzSettle(mgr)
		var idxs []*index.Reader
		var rel indexReleaser
		zzInService(mgr, func() { // what startMergeJobIfNeeded does when it starts a merge of everything
			mgr.mergeJobRunning = true
			idxs, rel = mgr.getIndexesCopy(0)
		})
		imp("c.pcap")
		zzWaitImports(mgr)
		mgr.mergeIndexesJob(0, idxs, rel) // the merge finishes now
		zzSettle(mgr)
	case 3: // an import extends a stream while a tagging job for a data tag is in flight
		var t tag
		var idxs []*index.Reader
		var rel indexReleaser
		zzInService(mgr, func() { // what startTaggingJobIfNeeded does when it starts the job for tag/big
			ti := *mgr.tags["tag/big"]
			ti.Uncertain = mgr.allStreams
			mgr.tags["tag/big"] = &ti
			t = ti
			mgr.updatedStreamsDuringTaggingJob = bitmask.LongBitmask{}
			mgr.resetStreamsDuringTaggingJob = bitmask.LongBitmask{}
			mgr.addedStreamsDuringTaggingJob = bitmask.LongBitmask{}
			mgr.taggingJobRunning = true
			idxs, rel = mgr.getIndexesCopy(0)
		})
		{ // the tags shown for a single stream are correct while the tag is pending
			v := mgr.GetView()
			sc, err := v.Stream(0)
			zz.Assert(err == nil && sc.Stream() != nil, "pending.view-has-stream-0")
			has, err := sc.HasTag("tag/big")
			zz.Assert(err == nil, "pending.hastag.noerr")
			zz.Assert(has == (model.flows[0].cbytes >= zzThreshold), "pending.tags-shown-for-a-stream-are-correct-while-the-tag-is-pending")
			// ... and so are the tags in a listing that asks for them, and a search for the tag
			listed := 0
			err = v.AllStreams(context.Background(), func(sc StreamContext) error {
				listed++
				has, err := sc.HasTag("tag/big")
				zz.Assert(err == nil, "pending.hastag.noerr")
				for _, fs := range model.flows {
					if fs.id == sc.Stream().ID() {
						zz.Assert(has == (fs.cbytes >= zzThreshold), "pending.tags-in-a-listing-are-correct-while-the-tag-is-pending")
					}
				}
				return nil
			}, PrefetchAllTags())
			zz.Assert(err == nil && listed == len(model.flows), "pending.listing")
			found := map[uint64]bool{}
			_, _, _, err = v.SearchStreams(context.Background(), &query.Query{Conditions: query.ConditionsSet{{zzTagCond("", "tag/big")}}}, func(sc StreamContext) error {
				found[sc.Stream().ID()] = true
				return nil
			}, Limit(100, 0))
			zz.Assert(err == nil, "pending.search.noerr")
			for _, fs := range model.flows {
				zz.Assert(found[fs.id] == (fs.cbytes >= zzThreshold), "pending.search-by-tag-is-correct-while-the-tag-is-pending")
			}
			v.Release()
			zzInService(mgr, func() {})
		}
		imp("c0.pcap") // only extends flow 0: nothing added, nothing reset
		zzWaitImports(mgr)
		mgr.updateTagJob("tag/big", t, map[string]query.TagDetails{}, map[string]index.ConverterAccess{}, idxs, rel)
		zzSettle(mgr)
	case 6: // a tag that references another: the referenced tag is edited while the referencing tag's job is in flight
		zz.Assert(mgr.AddTag("tag/viaweb", "#444444", "service:web") == nil, "addtag")
		zzSettle(mgr)
		imp("b.pcap")
		zzSettle(mgr)
		var t tag
		var idxs []*index.Reader
		var rel indexReleaser
		details := map[string]query.TagDetails{}
		zzInService(mgr, func() { // what startTaggingJobIfNeeded does when it starts the job for tag/viaweb
			ti := *mgr.tags["tag/viaweb"]
			ti.Uncertain = mgr.allStreams
			mgr.tags["tag/viaweb"] = &ti
			t = ti
			details["service/web"] = mgr.tags["service/web"].TagDetails
			mgr.updatedStreamsDuringTaggingJob = bitmask.LongBitmask{}
			mgr.resetStreamsDuringTaggingJob = bitmask.LongBitmask{}
			mgr.addedStreamsDuringTaggingJob = bitmask.LongBitmask{}
			mgr.taggingJobRunning = true
			idxs, rel = mgr.getIndexesCopy(0)
		})
		// ... to a definition with other members, or to one that matches nothing any more
		newDef := []string{"sport:443", "sport:9"}[zz.Choice("newdef", 2)]
		zz.Assert(mgr.UpdateTag("service/web", UpdateTagOperationUpdateQuery(newDef)) == nil, "updatetag")
		mgr.updateTagJob("tag/viaweb", t, details, map[string]index.ConverterAccess{}, idxs, rel)
		zzSettle(mgr)
	case 8: // a tag is deleted and added again with the same definition, and gets referenced, while its tagging job is in flight
		imp("b.pcap")
		zzSettle(mgr)
		var t tag
		var idxs []*index.Reader
		var rel indexReleaser
		zzInService(mgr, func() { // what startTaggingJobIfNeeded does when it starts the job for service/web
			ti := *mgr.tags["service/web"]
			ti.Uncertain = mgr.allStreams
			mgr.tags["service/web"] = &ti
			t = ti
			mgr.updatedStreamsDuringTaggingJob = bitmask.LongBitmask{}
			mgr.resetStreamsDuringTaggingJob = bitmask.LongBitmask{}
			mgr.addedStreamsDuringTaggingJob = bitmask.LongBitmask{}
			mgr.taggingJobRunning = true
			idxs, rel = mgr.getIndexesCopy(0)
		})
		zz.Assert(mgr.DelTag("service/web") == nil, "deltag")
		zz.Assert(mgr.AddTag("service/web", "#222222", "sport:80") == nil, "addtag")
		zz.Assert(mgr.AddTag("tag/viaweb", "#444444", "service:web") == nil, "addtag")
		mgr.updateTagJob("service/web", t, map[string]query.TagDetails{}, map[string]index.ConverterAccess{}, idxs, rel)
		zzSettle(mgr)
		zz.Assert(mgr.DelTag("service/web") != nil, "deltag.referenced-tag-is-refused")
	case 10: // a stream is marked while the job of a tag that references the mark is in flight
		imp("b.pcap")
		zzSettle(mgr)
		zz.Assert(mgr.AddTag("mark/m", "#777777", "id:0") == nil, "addtag")
		zz.Assert(mgr.AddTag("tag/viam", "#888888", "mark:m") == nil, "addtag")
		zzSettle(mgr)
		var t tag
		var idxs []*index.Reader
		var rel indexReleaser
		details := map[string]query.TagDetails{}
		zzInService(mgr, func() { // what startTaggingJobIfNeeded does when it starts the job for tag/viam
			ti := *mgr.tags["tag/viam"]
			ti.Uncertain = mgr.allStreams
			mgr.tags["tag/viam"] = &ti
			t = ti
			details["mark/m"] = mgr.tags["mark/m"].TagDetails
			mgr.updatedStreamsDuringTaggingJob = bitmask.LongBitmask{}
			mgr.resetStreamsDuringTaggingJob = bitmask.LongBitmask{}
			mgr.addedStreamsDuringTaggingJob = bitmask.LongBitmask{}
			mgr.taggingJobRunning = true
			idxs, rel = mgr.getIndexesCopy(0)
		})
		zz.Assert(mgr.UpdateTag("mark/m", UpdateTagOperationMarkAddStream([]uint64{1})) == nil, "updatetag")
		zzInService(mgr, func() { zz.Assert(mgr.tags["mark/m"].Matches.IsSet(1), "mark.accepted-mark-is-applied") })
		mgr.updateTagJob("tag/viam", t, details, map[string]index.ConverterAccess{}, idxs, rel)
		zzSettle(mgr)
	case 9: // a tag is deleted while its tagging job is in flight; later imports make a merge eligible
		var t tag
		var idxs []*index.Reader
		var rel indexReleaser
		zzInService(mgr, func() { // what startTaggingJobIfNeeded does when it starts the job for tag/big
			ti := *mgr.tags["tag/big"]
			ti.Uncertain = mgr.allStreams
			mgr.tags["tag/big"] = &ti
			t = ti
			mgr.updatedStreamsDuringTaggingJob = bitmask.LongBitmask{}
			mgr.resetStreamsDuringTaggingJob = bitmask.LongBitmask{}
			mgr.addedStreamsDuringTaggingJob = bitmask.LongBitmask{}
			mgr.taggingJobRunning = true
			idxs, rel = mgr.getIndexesCopy(0)
		})
		zz.Assert(mgr.DelTag("tag/big") == nil, "deltag")
		mgr.updateTagJob("tag/big", t, map[string]query.TagDetails{}, map[string]index.ConverterAccess{}, idxs, rel)
		zzSettle(mgr)
		imp("b.pcap")
		zzSettle(mgr)
		imp("c.pcap")
		zzSettle(mgr)
	case 7: // ... keeps giving the same answers for its whole lifetime
		n1 := 0
		early.AllStreams(context.Background(), func(sc StreamContext) error { n1++; return nil })
		zz.Assert(n1 == earlyCount, "view.same-answer-for-its-whole-lifetime")
		early.Release()
		zzInService(mgr, func() {})
	case 11: // a view taken after the first import is held across later imports and a merge
		held := mgr.GetView()
		seen := map[uint64]uint64{}
		held.AllStreams(context.Background(), func(sc StreamContext) error { seen[sc.Stream().ID()] = sc.Stream().ClientBytes; return nil })
		imp("b.pcap")
		zzSettle(mgr)
		imp("c.pcap") // extends stream 0, adds a stream, makes a merge eligible
		zzSettle(mgr)
		again := map[uint64]uint64{}
		err := held.AllStreams(context.Background(), func(sc StreamContext) error { again[sc.Stream().ID()] = sc.Stream().ClientBytes; return nil })
		zz.Assert(err == nil, "view.held.noerr")
		zz.Assert(len(again) == len(seen), "view.held.same-streams-for-its-whole-lifetime")
		for id, cb := range seen {
			zz.Assert(again[id] == cb, "view.held.same-version-for-its-whole-lifetime")
		}
		zz.Assert(zz.FSBadUse() == 0, "view.held.no-read-of-a-closed-file")
		held.Release()
		zzInService(mgr, func() {})
	case 12: // a view taken while the served list has spare capacity; a later import lands in the spare slot,
		// then a merge of the newer files only (offset 1) rewrites the list in place
		imp("b.pcap")
		zzSettle(mgr)
		zzInService(mgr, func() { // spare capacity, as append leaves it behind sooner or later
			mgr.indexes = append(make([]*index.Reader, 0, 8), mgr.indexes...)
			mgr.mergeJobRunning = true // no merge starts by itself
		})
		held := mgr.GetView()
		seen := map[uint64]uint64{}
		held.AllStreams(context.Background(), func(sc StreamContext) error { seen[sc.Stream().ID()] = sc.Stream().ClientBytes; return nil })
		imp("c.pcap") // extends stream 0, adds a stream
		zzWaitImports(mgr)
		var idxs []*index.Reader
		var rel indexReleaser
		enough := false
		zzInService(mgr, func() {
			if enough = len(mgr.indexes) >= 3; enough {
				idxs, rel = mgr.getIndexesCopy(1)
			}
		})
		zz.Assert(enough, "scenario.three-index-files")
		if !enough {
			return
		}
		mgr.mergeIndexesJob(1, idxs, rel)
		zzSettle(mgr)
		again := map[uint64]uint64{}
		err := held.AllStreams(context.Background(), func(sc StreamContext) error { again[sc.Stream().ID()] = sc.Stream().ClientBytes; return nil })
		zz.Assert(err == nil, "view.held.noerr")
		zz.Assert(len(again) == len(seen), "view.held.same-streams-for-its-whole-lifetime")
		for id, cb := range seen {
			zz.Assert(again[id] == cb, "view.held.same-version-for-its-whole-lifetime")
		}
		zz.Assert(zz.FSBadUse() == 0, "view.held.no-read-of-a-closed-file")
		held.Release()
		zzInService(mgr, func() {})
	case 5: // a capture arrives out of chronological order: the stream is reset
		imp("early.pcap")
		zzSettle(mgr)
	case 4: // an import that creates no index, then enough imports for a merge
		imp("empty.pcap")
		zzSettle(mgr)
		imp("b.pcap")
		zzSettle(mgr)
		imp("c.pcap")
		zzSettle(mgr)
	}
	zzCheckQuiescent(mgr, model, "final")
}
