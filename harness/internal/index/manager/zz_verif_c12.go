//go:build verif

package manager

// C12: the service is killed (or shut down) at a job-level gate, the
// directories it leaves behind are what a second service starts from — the real
// manager.New: index files stacked by name, newest parsable state file,
// builder.New — and everything the properties say about a settled service
// must hold again: acknowledged tags are there, every stream of a completed
// import is visible under its old id in its newest version, tag matches
// converge to the definition evaluated on the current data.
//
// A gate is a point where the harness holds a job between its body and the
// delivery of its completion (it blocks the service loop and receives the
// completion itself), so the files on disk are exactly what a kill at that
// instant leaves, in the engine as well as natively. Half-written files are
// built from two such snapshots (everything before the operation + the one
// new file cut short).

import (
	"context"
	"os"
	"path/filepath"
	"strings"

	"github.com/fsnotify/fsnotify"
	"github.com/spq/pkappa2/internal/index"
	"github.com/spq/pkappa2/internal/index/builder"
	"github.com/spq/pkappa2/internal/tools/bitmask"
	pcapmetadata "github.com/spq/pkappa2/internal/tools/pcapMetadata"
	zz "github.com/spq/pkappa2/internal/zzverif"
)

// zzBoot starts a service on the directories below root with the real New.
func zzBoot(root string) (*Manager, error) {
	idx := root + "/idx"
	os.MkdirAll(root+"/conv", 0o755)
	os.MkdirAll(root+"/pcaps", 0o755)
	os.MkdirAll(root+"/snap", 0o755)
	os.MkdirAll(idx, 0o755)
	if zz.Symbolic() {
		// environment of New that is not file content: watchers, permission probes,
		// the capture importer (cgo) and the two background workers
		zz.Override("github.com/fsnotify/fsnotify.NewWatcher", func() (*fsnotify.Watcher, error) { return &fsnotify.Watcher{}, nil })
		zz.Override("(*github.com/fsnotify/fsnotify.Watcher).Close", func(w *fsnotify.Watcher) error { return nil })
		zz.Override(zzMgr+"startMonitoringConverters", func(m *Manager, w *fsnotify.Watcher) {})
		zz.Override("github.com/spq/pkappa2/internal/tools.AssertFolderRWXPermissions", func(name, dir string) {})
		zz.Override(zzMgr+"tagUpdateEventWorker", func(m *Manager) {})
		zz.Override(zzMgr+"newPcapOverIPEndpoint", func(m *Manager, ctx context.Context, address string) *pcapOverIPEndpoint {
			// the connecting goroutine (network) is left out
			return &pcapOverIPEndpoint{PcapOverIPEndpointInfo: PcapOverIPEndpointInfo{Address: address}, cancel: func() {}}
		})
		zz.Override(zzMgr+"pcapOverIPPacketHandler", func(m *Manager) {
			for cmd := range m.pcapOverIPCmd {
				if cmd == pcapOverIPCmdClose {
					return
				}
			}
		})
		const b = "(*github.com/spq/pkappa2/internal/index/builder.Builder)."
		zz.Override(b+"FromPcap", func(_ any, pcapDir string, filenames []string, existing []*index.Reader) (int, uint64, []*index.Reader, *bitmask.LongBitmask, *bitmask.LongBitmask, *bitmask.LongBitmask, error) {
			return zzScriptedFromPcap(idx)(pcapDir, filenames, existing)
		})
	}
	return New(root+"/pcaps", idx, root+"/snap", root, root+"/conv", "")
}

var _ = builder.New
var _ = pcapmetadata.AddPcapMetadata

// zzHold parks the service loop; the returned function lets it go on.
func zzHold(mgr *Manager) func() {
	gate := make(chan struct{})
	entered := make(chan struct{})
	go func() {
		mgr.jobs <- func() {
			close(entered)
			<-gate
		}
	}()
	<-entered
	return func() { close(gate) }
}

type zzAck struct{ name, color, def string }

func zzNewest(dir, ext string, before []string) string {
	for _, f := range zz.FSList(dir) {
		if !strings.HasSuffix(f, ext) {
			continue
		}
		old := false
		for _, b := range before {
			old = old || b == f
		}
		if !old {
			return f
		}
	}
	return ""
}

// ZZ_C12_Restart: kill / shutdown at a gate, restart, compare.
func ZZ_C12_Restart() {
	zz.DeadlockIsViolation()
	zz.MaxInstr(3_000_000_000)
	zzRealState = true
	zzRoot = zz.TempDir() + "/life1"
	zzHalfWritten = ""
	defer func() { zzRoot, zzRealState, zzHalfWritten = "", false, "" }()
	root2 := zz.TempDir() + "/life2"
	caps := zzStdCaptures()
	mgr := zzService(caps)
	model := zzNewWorld()
	apply := func(name string) {
		for _, c := range caps {
			if c.name == name {
				model.apply(c)
			}
		}
	}
	imp := func(m *Manager, name string) {
		m.ImportPcaps([]string{name})
		apply(name)
	}
	var acked []zzAck
	add := func(name, color, def string) {
		zz.Assert(mgr.AddTag(name, color, def) == nil, "addtag")
		acked = append(acked, zzAck{name, color, def})
	}
	zzThreshold = zz.Range("threshold", 1, zz.Param("thresholdmax", 6))
	if zz.Param("onlymarks", 0) == 0 {
		add("tag/big", "#111111", zzBigDef())
		add("service/web", "#222222", "sport:80")
		add("tag/all", "#333333", "id:0:")
	}
	// (onlymarks: nothing is re-evaluated after a restart, so the restarted service has no reason to save its state)
	if zz.Param("marks", 0) == 1 || zz.Param("onlymarks", 0) == 1 { // a mark and a tag that references it
		add("mark/m", "#777777", "id:0")
		if zz.Param("onlymarks", 0) == 0 {
			add("tag/viam", "#888888", "mark:m")
		}
	}
	imp(mgr, "a.pcap")
	zzSettle(mgr)
	imp(mgr, "b.pcap")
	zzSettle(mgr)
	zzCheckQuiescent(mgr, model, "before")
	shown := map[string]TagInfo{} // the tags as the first service showed them
	for _, t := range mgr.ListTags() {
		shown[t.Name] = t
	}
	for _, a := range acked {
		zz.Assert(shown[a.name].Color == a.color && (shown[a.name].Definition == a.def || a.name == "mark/m"), "before.acknowledged-tag-shown")
	}

	further := true // a further import after the restart
	var endpoints, webhooks []string // acknowledged endpoints and webhooks
	gate := zz.Param("gatefrom", 0) + zz.Choice("gate", zz.Param("gates", 7)-zz.Param("gatefrom", 0))
	switch gate {
	case 0: // clean shutdown of a settled service
		mgr.Close()
		zz.FSCopyTree(zzRoot, root2)
	case 1: // killed while a tagging job is in flight and an import has completed meanwhile:
		// the state file's matches are older than the index files
		zzInService(mgr, func() { mgr.taggingJobRunning = true }) // a tagging job is in flight (its result never arrives)
		imp(mgr, "c0.pcap")                                       // extends flow 0
		zzWaitImports(mgr)
		zz.FSCopyTree(zzRoot, root2)
	case 2, 5: // killed between an import job's body and its completion (5: inside the body, index half-written)
		var idxs []*index.Reader
		var rel indexReleaser
		var next uint64
		zzInService(mgr, func() { // what ImportPcaps does when it starts the job
			mgr.importJobs = append(mgr.importJobs, "c.pcap")
			idxs, rel = mgr.getIndexesCopy(0)
			next = mgr.nextStreamID
		})
		if gate == 5 {
			zz.FSCopyTree(zzRoot, root2)
		}
		before := zz.FSList(mgr.IndexDir)
		release := zzHold(mgr)
		go mgr.importPcapJob([]string{"c.pcap"}, next, idxs, rel)
		completion := <-mgr.jobs // the body is done, the completion is never delivered
		if gate == 2 {
			zz.FSCopyTree(zzRoot, root2)
			apply("c.pcap")
		} else {
			f := zzNewest(mgr.IndexDir, ".idx", before)
			zz.Assert(f != "", "gate.import-wrote-an-index")
			zz.FSCopyFile(mgr.IndexDir+"/"+f, root2+"/idx/"+f)
			sz := zz.FSSize(root2 + "/idx/" + f)
			zz.FSTruncate(root2+"/idx/"+f, []int{0, 1, sz / 2, sz - 1}[zz.Choice("cut", 4)])
			zzHalfWritten = f
			further = false
		}
		release()
		mgr.jobs <- completion
		zzSettle(mgr)
	case 3, 4, 7: // a merge whose body ran between an import job's body and completion;
		// 3: killed before the merge's completion (inputs and result on disk), 4: clean shutdown afterwards
		var idxs, midxs []*index.Reader
		var rel, mrel indexReleaser
		var next uint64
		zzInService(mgr, func() {
			mgr.importJobs = append(mgr.importJobs, "c.pcap")
			idxs, rel = mgr.getIndexesCopy(0)
			next = mgr.nextStreamID
		})
		release := zzHold(mgr)
		go mgr.importPcapJob([]string{"c.pcap"}, next, idxs, rel)
		impDone := <-mgr.jobs
		release()
		// the loop was busy with another completion that started a merge of everything served
		zzInService(mgr, func() {
			mgr.mergeJobRunning = true
			midxs, mrel = mgr.getIndexesCopy(0)
		})
		release = zzHold(mgr)
		go mgr.mergeIndexesJob(0, midxs, mrel)
		mergeDone := <-mgr.jobs
		apply("c.pcap")
		if gate == 3 || gate == 7 {
			zz.FSCopyTree(zzRoot, root2)
		}
		if gate == 7 { // killed while the merged inputs were being deleted: one of them is gone already
			var inputs []string
			for _, r := range midxs {
				inputs = append(inputs, filepath.Base(r.Filename()))
			}
			zz.FSRemove(root2 + "/idx/" + inputs[zz.Choice("deleted-input", len(inputs))])
		}
		release()
		mgr.jobs <- impDone
		mgr.jobs <- mergeDone
		zzSettle(mgr)
		if gate == 4 {
			zzCheckQuiescent(mgr, model, "life1")
			mgr.Close()
			zz.FSCopyTree(zzRoot, root2)
		}
	case 6: // killed inside a state save: the old state file and a half-written new one
		zz.FSCopyTree(zzRoot, root2)
		before := zz.FSList(zzRoot)
		zz.Assert(mgr.AddTag("tag/late", "#555555", "sport:443") == nil, "addtag")
		f := zzNewest(zzRoot, ".state.json", before)
		zz.Assert(f != "", "gate.addtag-wrote-a-state-file")
		zz.FSCopyFile(zzRoot+"/"+f, root2+"/"+f)
		sz := zz.FSSize(root2 + "/" + f)
		zz.FSTruncate(root2+"/"+f, []int{0, 1, sz / 2, sz - 2}[zz.Choice("cut", 4)])
	case 9: // an endpoint and a webhook are acknowledged; killed after a capture file was stored and before its import started
		zz.Assert(mgr.AddPcapOverIPEndpoint("127.0.0.1:1") == nil, "addendpoint")
		zz.Assert(mgr.AddPcapProcessorWebhook("http://127.0.0.1:1/hook") == nil, "addwebhook")
		endpoints, webhooks = []string{"127.0.0.1:1"}, []string{"http://127.0.0.1:1/hook"}
		zzInService(mgr, func() {})
		zz.FSCopyTree(zzRoot, root2)
		// the stored capture: the next life finds a capture file the state file does not list
		// (natively the capture directory holds such files anyway)
		zzKnownPcaps = []*pcapmetadata.PcapInfo{{Filename: "stored.pcap", Filesize: 24}}
		further = false
	case 8: // killed after the new state file was written and before the old one was removed
		zz.FSCopyTree(zzRoot, root2)
		before := zz.FSList(zzRoot)
		zz.Assert(mgr.AddTag("tag/late", "#555555", "sport:443") == nil, "addtag")
		f := zzNewest(zzRoot, ".state.json", before)
		zz.Assert(f != "", "gate.addtag-wrote-a-state-file")
		zz.FSCopyFile(zzRoot+"/"+f, root2+"/"+f)
	}

	// ---- second life
	mgr2, err := zzBoot(root2)
	zz.Assert(err == nil, "restart.succeeds")
	if err != nil {
		return
	}
	zzSettle(mgr2)
	tags := map[string]TagInfo{}
	for _, t := range mgr2.ListTags() {
		tags[t.Name] = t
	}
	for _, a := range acked {
		t, ok := tags[a.name]
		zz.Assert(ok, "restart.acknowledged-tag-present")
		zz.Assert(!ok || (t.Definition == shown[a.name].Definition && t.Color == a.color), "restart.acknowledged-tag-unchanged")
	}
	zzCheckQuiescent(mgr2, model, "restarted")
	if further {
		imp(mgr2, "d.pcap")
		zzSettle(mgr2)
		zzCheckQuiescent(mgr2, model, "restarted-further")
	}
	zzCheckSettings(mgr2, endpoints, webhooks, "restart")
	mgr2.Close()
	if zz.Param("thirdlife", 0) == 1 || gate == 9 {
		// ---- third life: a clean shutdown of the second, started again on the same directories
		mgr3, err := zzBoot(root2)
		zz.Assert(err == nil, "second-restart.succeeds")
		if err != nil {
			return
		}
		zzSettle(mgr3)
		tags3 := map[string]TagInfo{}
		for _, t := range mgr3.ListTags() {
			tags3[t.Name] = t
		}
		for _, a := range acked {
			t, ok := tags3[a.name]
			zz.Assert(ok && t.Definition == shown[a.name].Definition && t.Color == a.color, "second-restart.acknowledged-tag-unchanged")
		}
		zzCheckQuiescent(mgr3, model, "second-restart")
		zzCheckSettings(mgr3, endpoints, webhooks, "second-restart")
		zz.Cover("c12.third-life-checked")
		mgr3.Close()
	}
	_ = filepath.Join
}

// zzCheckSettings: every acknowledged endpoint and webhook is shown.
func zzCheckSettings(mgr *Manager, endpoints, webhooks []string, label string) {
	shownE := map[string]bool{}
	for _, e := range mgr.ListPcapOverIPEndpoints() {
		shownE[e.Address] = true
	}
	for _, e := range endpoints {
		zz.Assert(shownE[e], label+".acknowledged-endpoint-shown")
	}
	zz.Assert(len(shownE) == len(endpoints), label+".no-other-endpoint")
	shownW := map[string]bool{}
	for _, w := range mgr.ListPcapProcessorWebhooks() {
		shownW[w] = true
	}
	for _, w := range webhooks {
		zz.Assert(shownW[w], label+".acknowledged-webhook-shown")
	}
	zz.Assert(len(shownW) == len(webhooks), label+".no-other-webhook")
}
