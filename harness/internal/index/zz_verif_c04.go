//go:build verif

package index

// C04 (A): the literal-prefix / suffix / length shortcuts of
// progressVariant.find never change the outcome of a plain
// regular-expression scan of the same buffer.

import (
	regexanalysis "github.com/spq/pkappa2/internal/tools/regexAnalysis"
	zz "github.com/spq/pkappa2/internal/zzverif"
	"rsc.io/binaryregexp"
)

// zzVariant prepares a progressVariant exactly as finalize/prepare do.
func zzVariant(e string) (*progressVariant, bool) {
	re, err := binaryregexp.Compile(e)
	if err != nil {
		return nil, false
	}
	p := &progressVariant{regex: re}
	prefix, complete, err := literalPrefix(re, e)
	if err != nil {
		return nil, false
	}
	p.prefix = []byte(prefix)
	if complete {
		p.acceptedLength = regexanalysis.AcceptedLengths{MinLength: uint(len(prefix)), MaxLength: uint(len(prefix))}
		p.suffix = p.prefix
	} else {
		if p.acceptedLength, err = regexanalysis.AcceptedLength(e); err != nil {
			return nil, false
		}
		if p.suffix, err = regexanalysis.ConstantSuffix(e); err != nil {
			return nil, false
		}
	}
	return p, true
}

func ZZ_C04_Find() {
	exprs := regexanalysis.ZZExprs(zz.Param("level", 0))
	lo, hi := zz.Param("exprlo", 0), zz.Param("exprhi", len(exprs))
	if hi > len(exprs) {
		hi = len(exprs)
	}
	e := exprs[lo+zz.Choice("expr", hi-lo)]
	p, ok := zzVariant(e)
	if !ok {
		return
	}
	maxLen := zz.Param("maxlen", 3)
	dir := uint8(zz.Choice("dir", 2))
	n := zz.Choice("n", maxLen+1)
	var buffers [2][]byte
	buffers[dir] = zz.Bytes("b", n)
	buffers[1-dir] = zz.Bytes("other", 1)
	off := zz.Choice("off", n+1)
	p.streamOffset[dir] = off
	zz.Observe("prefix", string(p.prefix))
	zz.Observe("suffix", string(p.suffix))
	zz.Observe("min", p.acceptedLength.MinLength)

	// the plain scan: leftmost-first match of the whole remaining buffer
	want := p.regex.FindSubmatchIndex(buffers[dir][off:])
	got := p.find(buffers, dir)
	zz.Cover("compared")
	if want == nil {
		zz.Assert(got == nil, "find.no-false-match")
		return
	}
	zz.Assert(got != nil, "find.no-missed-match")
	if got == nil {
		return
	}
	base := p.streamOffset[dir]
	zz.Assert(len(got) == len(want), "find.same-groups")
	for i := range want {
		if i >= len(got) {
			break
		}
		if want[i] < 0 {
			zz.Assert(got[i] < 0, "find.same-span")
		} else {
			zz.Assert(base+got[i] == off+want[i], "find.same-span")
		}
	}
}
