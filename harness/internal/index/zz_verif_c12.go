//go:build verif

package index

// C12 (file-format slice): half-written index files are ignored rather than
// loaded or fatal.

import (
	pcapmetadata "github.com/spq/pkappa2/internal/tools/pcapMetadata"
	zz "github.com/spq/pkappa2/internal/zzverif"
)

func zzC12Writer(path string) (*Writer, []zzWantStream) {
	infos := []*pcapmetadata.PcapInfo{{Filename: "f0.pcap"}}
	w, err := NewWriter(path)
	zz.Assert(err == nil, "newwriter.noerr")
	var want []zzWantStream
	for i, tag := range []string{"a", "b"}[:zz.Param("streams", 2)] {
		s := zzMkStream(tag, infos, false)
		id := uint64(10 + i)
		ok, err := w.AddStream(s, id)
		zz.Assert(ok && err == nil, "addstream.accepted")
		want = append(want, zzWantStream{s, id})
	}
	return w, want
}

// a complete index file cut at any byte position is rejected by NewReader
// (an error, never a panic, never a reader over partial content); the
// uncut file opens and serves everything.
func ZZ_C12_IndexCut() {
	path := zz.TempDir() + "/cut.idx"
	w, want := zzC12Writer(path)
	r, err := w.Finalize()
	zz.Assert(err == nil && r != nil, "finalize.noerr")
	if r == nil {
		return
	}
	r.Close()
	size := zz.FSSize(path)
	zz.Observe("size", size)
	cut := zz.Choice("cut", size+1)
	zz.FSTruncate(path, cut)
	r2, err := NewReader(path)
	if cut < size {
		zz.Assert(err != nil && r2 == nil, "cut-index-file-is-rejected")
		return
	}
	zz.Assert(err == nil && r2 != nil, "complete-index-file-opens")
	if r2 != nil {
		for _, ws := range want {
			zzCheckStreamNoSource(r2, ws)
		}
		r2.Close()
	}
}

// the process died before Finalize: whatever reached the file has no magic
// (it is written last) and is rejected.
func ZZ_C12_Unfinalized() {
	path := zz.TempDir() + "/unfinished.idx"
	w, _ := zzC12Writer(path)
	if zz.Choice("flushed", 2) == 1 {
		w.buffer.Flush()
	}
	w.Close()
	r, err := NewReader(path)
	zz.Assert(err != nil && r == nil, "unfinalized-index-file-is-rejected")
}
