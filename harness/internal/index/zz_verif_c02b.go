//go:build verif

package index

// C02 (ordering): every comparator the search sorts and merges with is the
// strict order of the key it is named after, for streams of the same or of
// different index files (different reference times, different host tables).

import (
	"time"

	"github.com/spq/pkappa2/internal/query"
	zz "github.com/spq/pkappa2/internal/zzverif"
)

var zzC02bNS = []uint64{0, 1, 999_999_999, 1_000_000_000, 1_000_000_001, 4_999_999_999, 3_600_000_000_000}

func zzC02bReader(tag string, hosts bool) (*Reader, int64) {
	sec := int64(zz.Range(tag+".refsec", 1_600_000_000, 1_800_000_000))
	r := &Reader{ReferenceTime: time.Unix(sec, 0)}
	hs := 4
	if hosts && zz.Choice(tag+".v6", 2) == 1 {
		hs = 16
	}
	r.hostGroups = []readerHostGroup{{hosts: zz.Bytes(tag+".hosts", 2*hs), hostSize: hs, hostCount: 2}}
	return r, sec
}

type zzC02bKey struct {
	u      uint64 // numeric keys
	sec    int64  // time keys: absolute second and nanosecond
	ns     uint64
	host   []byte
	isTime bool
	isHost bool
}

func zzC02bLessRef(a, b zzC02bKey) bool {
	switch {
	case a.isTime:
		return zz.Or(a.sec < b.sec, zz.And(a.sec == b.sec, a.ns < b.ns))
	case a.isHost:
		// lexicographic, a proper prefix first
		n := len(a.host)
		if len(b.host) < n {
			n = len(b.host)
		}
		less, decided := false, false
		for i := 0; i < n; i++ {
			less = zz.IteBool(zz.And(!decided, a.host[i] < b.host[i]), true, less)
			decided = zz.Or(decided, a.host[i] != b.host[i])
		}
		return zz.IteBool(decided, less, len(a.host) < len(b.host))
	}
	return a.u < b.u
}

func ZZ_C02_Comparators() {
	keys := []query.SortingKey{query.SortingKeyID, query.SortingKeyClientBytes, query.SortingKeyServerBytes,
		query.SortingKeyFirstPacketTime, query.SortingKeyLastPacketTime, query.SortingKeyClientHost, query.SortingKeyServerHost,
		query.SortingKeyClientPort, query.SortingKeyServerPort}
	zz.Assert(len(sorterFunctions) == len(keys), "c02b.every-sort-key-covered")
	key := keys[zz.Param("key", 0)]
	less := sorterFunctions[key]
	zz.Assert(less != nil, "c02b.comparator-exists")

	timeKey := key == query.SortingKeyFirstPacketTime || key == query.SortingKeyLastPacketTime
	hostKey := key == query.SortingKeyClientHost || key == query.SortingKeyServerHost
	r0, sec0 := zzC02bReader("r0", hostKey)
	r1, sec1 := zzC02bReader("r1", hostKey)
	rs, secs := []*Reader{r0, r1}, []int64{sec0, sec1}
	n := zz.Param("streams", 2)
	ss := make([]*Stream, n)
	ks := make([]zzC02bKey, n)
	for i := range ss {
		tag := string(rune('a' + i))
		ri := 0
		if i > 0 {
			ri = zz.Choice(tag+".reader", 2)
		}
		s := &Stream{r: rs[ri]}
		s.StreamID = zz.U64(tag + ".id")
		s.ClientBytes = zz.U64(tag + ".cbytes")
		s.ServerBytes = zz.U64(tag + ".sbytes")
		s.ClientPort = zz.U16(tag + ".cport")
		s.ServerPort = zz.U16(tag + ".sport")
		s.FirstPacketTimeNS = zz.U64(tag + ".ftime")
		s.LastPacketTimeNS = zz.U64(tag + ".ltime")
		switch key {
		case query.SortingKeyFirstPacketTime:
			s.FirstPacketTimeNS = zzC02bNS[zz.Choice(tag+".ftime", len(zzC02bNS))]
		case query.SortingKeyLastPacketTime:
			s.LastPacketTimeNS = zzC02bNS[zz.Choice(tag+".ltime", len(zzC02bNS))]
		case query.SortingKeyClientHost:
			s.ClientHost = uint16(zz.Choice(tag+".chost", 2))
		case query.SortingKeyServerHost:
			s.ServerHost = uint16(zz.Choice(tag+".shost", 2))
		}
		ss[i] = s
		k := zzC02bKey{isTime: timeKey, isHost: hostKey}
		hg := &rs[ri].hostGroups[0]
		switch key {
		case query.SortingKeyID:
			k.u = s.StreamID
		case query.SortingKeyClientBytes:
			k.u = s.ClientBytes
		case query.SortingKeyServerBytes:
			k.u = s.ServerBytes
		case query.SortingKeyClientPort:
			k.u = uint64(s.ClientPort)
		case query.SortingKeyServerPort:
			k.u = uint64(s.ServerPort)
		case query.SortingKeyFirstPacketTime:
			k.sec, k.ns = secs[ri]+int64(s.FirstPacketTimeNS/1_000_000_000), s.FirstPacketTimeNS%1_000_000_000
		case query.SortingKeyLastPacketTime:
			k.sec, k.ns = secs[ri]+int64(s.LastPacketTimeNS/1_000_000_000), s.LastPacketTimeNS%1_000_000_000
		case query.SortingKeyClientHost:
			k.host = hg.hosts[hg.hostSize*int(s.ClientHost):][:hg.hostSize]
		case query.SortingKeyServerHost:
			k.host = hg.hosts[hg.hostSize*int(s.ServerHost):][:hg.hostSize]
		}
		ks[i] = k
	}
	for i := range ss {
		zz.Assert(!less(ss[i], ss[i]), "c02b.irreflexive")
		for j := range ss {
			if i != j {
				zz.Assert(less(ss[i], ss[j]) == zzC02bLessRef(ks[i], ks[j]), "c02b.comparator-is-the-order-of-its-key")
			}
		}
	}
	zz.Cover("c02b.done")
}
