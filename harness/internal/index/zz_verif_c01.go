//go:build verif

package index

// C01: index files return every stored stream exactly as written.

import (
	"time"

	"github.com/gopacket/gopacket"
	"github.com/gopacket/gopacket/reassembly"
	"github.com/spq/pkappa2/internal/index/streams"
	pcapmetadata "github.com/spq/pkappa2/internal/tools/pcapMetadata"
	zz "github.com/spq/pkappa2/internal/zzverif"
)

// ---------------------------------------------------------------- host table step (layer 0)

// zzHostGroup: an arbitrary valid group: hostSize in {4,16}, 0..max hosts,
// entries pairwise distinct.
func zzHostGroup(max int) (hostGroup, int) {
	hs := []int{4, 16}[zz.Choice("hg.size", 2)]
	n := zz.Choice("hg.n", max+1)
	g := hostGroup{}
	if n > 0 {
		g.hostSize = hs
		g.hosts = zz.Bytes("hg.hosts", n*hs)
	}
	for i := 0; i < n; i++ {
		for j := i + 1; j < n; j++ {
			same := true
			for k := 0; k < hs; k++ {
				same = zz.And(same, g.hosts[i*hs+k] == g.hosts[j*hs+k])
			}
			zz.Assume(zz.Not(same))
		}
	}
	return g, hs
}

func zzHostAt(g *hostGroup, idx int, host []byte) bool {
	ok := true
	for k := range host {
		ok = zz.And(ok, g.hosts[idx*g.hostSize+k] == host[k])
	}
	return ok
}

// add returns the index of an equal entry iff one exists, appends otherwise;
// add followed by its undo (pop) restores the table.
func ZZ_C01_HostGroup() {
	g, hs := zzHostGroup(zz.Param("hosts", 2))
	before := append([]byte(nil), g.hosts...)
	n := len(before) / hs
	x := zz.Bytes("x", hs)
	idx, added, ok := g.add(x)
	zz.Assert(ok, "hostgroup.add.accepted")
	present := false
	for i := 0; i < n; i++ {
		same := true
		for k := 0; k < hs; k++ {
			same = zz.And(same, before[i*hs+k] == x[k])
		}
		present = zz.Or(present, same)
	}
	zz.Assert(zz.Iff(added, zz.Not(present)), "hostgroup.add.added-iff-new")
	zz.Assert(int(idx) < len(g.hosts)/hs, "hostgroup.add.index-in-range")
	zz.Assert(zzHostAt(&g, int(idx), x), "hostgroup.add.index-holds-host")
	if added {
		zz.Assert(len(g.hosts) == len(before)+hs, "hostgroup.add.appended-one-host")
		g.pop()
		zz.Assert(len(g.hosts) == len(before), "hostgroup.pop.restores-length")
		for i := range before {
			if i < len(g.hosts) {
				zz.Assert(g.hosts[i] == before[i], "hostgroup.pop.restores-content")
			}
		}
	} else {
		zz.Assert(len(g.hosts) == len(before), "hostgroup.add.existing-unchanged")
	}
}

// ---------------------------------------------------------------- round trip (layer 1)

type zzWantStream struct {
	s  *streams.Stream
	id uint64
}

var zzBase = time.Unix(1700000000, 250_000_000).UTC()

func zzMkStream(tag string, infos []*pcapmetadata.PcapInfo, v6 bool) *streams.Stream {
	hl := 4
	if v6 {
		hl = 16
	}
	s := &streams.Stream{
		ClientPort: zz.U16(tag + ".cport"),
		ServerPort: zz.U16(tag + ".sport"),
	}
	if zz.Param("addrmode", 0) == 0 {
		s.ClientAddr = zz.Bytes(tag+".caddr", hl)
		s.ServerAddr = zz.Bytes(tag+".saddr", hl)
	} else {
		// addresses from a two-element domain: sharing across streams/files is enumerated
		s.ClientAddr = make([]byte, hl)
		s.ServerAddr = make([]byte, hl)
		s.ClientAddr[hl-1] = byte(1 + zz.Choice(tag+".caddr", zz.Param("caddrs", 2)))
		s.ServerAddr[hl-1] = byte(1 + zz.Choice(tag+".saddr", zz.Param("saddrs", 2)))
		s.ServerAddr[0] = 10
		s.ClientPort, s.ServerPort = 1234, 80
	}
	if zz.Choice(tag+".udp", zz.Param("protocols", 1)) == 1 {
		s.Flags = streams.StreamFlagsProtocolUDP
	}
	np := 1 + zz.Choice(tag+".np", zz.Param("packets", 3))
	t := zzBase.Add([]time.Duration{0, -3 * time.Second, 5*time.Second + 7*time.Microsecond}[zz.Choice(tag+".start", zz.Param("starts", 3))])
	idx := []uint64{10, 1<<32 + 5, 1<<33 - 2}[zz.Choice(tag+".idx", zz.Param("idxbases", 2))]
	for i := 0; i < np; i++ {
		if i > 0 {
			t = t.Add([]time.Duration{time.Microsecond, 0, 30 * time.Millisecond, 2 * time.Second, 40 * time.Minute}[zz.Param("gapfrom", 0)+zz.Choice(tag+".gap", zz.Param("gaps", 2))])
		}
		ci := gopacket.CaptureInfo{Timestamp: t}
		pcapmetadata.AddPcapMetadata(&ci, infos[zz.Choice(tag+".file", len(infos))], idx)
		idx += uint64(1 + zz.Choice(tag+".idxstep", zz.Param("idxsteps", 1)))
		s.Packets = append(s.Packets, ci)
		dir := reassembly.TCPDirClientToServer
		if zz.Choice(tag+".dir", zz.Param("dirs", 2)) == 1 {
			dir = reassembly.TCPDirServerToClient
		}
		s.PacketDirections = append(s.PacketDirections, dir)
		if zz.Param("bigpayload", 0) == 1 && i == 0 {
			// one chunk around the 16-bit size limit of a packet record: 65534..65537
			// bytes, the first and the last two symbolic, the rest a fixed pattern
			b := make([]byte, 65534+zz.Choice(tag+".big", 4))
			for k := range b {
				b[k] = byte(k * 7)
			}
			e := zz.Bytes(tag+".bigedge", 3)
			b[0], b[len(b)-2], b[len(b)-1] = e[0], e[1], e[2]
			s.Data = append(s.Data, streams.StreamData{Bytes: b, PacketIndex: uint64(i)})
		} else if l := zz.Choice(tag+".payload", 1+zz.Param("payload", 2)); l > 0 {
			s.Data = append(s.Data, streams.StreamData{Bytes: zz.Bytes(tag+".data", l), PacketIndex: uint64(i)})
		}
	}
	return s
}

func zzSameBytes(a, b []byte, label string) {
	zz.Assert(len(a) == len(b), label+".length")
	if len(a) != len(b) {
		return
	}
	for i := range a {
		zz.Assert(a[i] == b[i], label)
	}
}

func zzCheckStream(r *Reader, w zzWantStream) {
	got, err := r.StreamByID(w.id)
	zz.Assert(err == nil && got != nil, "streambyid.found")
	if got == nil {
		return
	}
	s := w.s
	zz.Assert(got.StreamID == w.id, "stream.id")
	zz.Assert(got.ClientPort == s.ClientPort && got.ServerPort == s.ServerPort, "stream.ports")
	zzSameBytes(r.hostGroups[got.HostGroup].get(got.ClientHost), s.ClientAddr, "stream.client-address")
	zzSameBytes(r.hostGroups[got.HostGroup].get(got.ServerHost), s.ServerAddr, "stream.server-address")
	wantProto := "TCP"
	if s.Flags&streams.StreamFlagsProtocol == streams.StreamFlagsProtocolUDP {
		wantProto = "UDP"
	}
	zz.Assert(got.Protocol() == wantProto, "stream.protocol")
	zz.Assert(got.FirstPacket().Equal(s.Packets[0].Timestamp), "stream.first-packet-time")
	zz.Assert(got.LastPacket().Equal(s.Packets[len(s.Packets)-1].Timestamp), "stream.last-packet-time")
	var cb, sb uint64
	for _, d := range s.Data {
		if s.PacketDirections[d.PacketIndex] == reassembly.TCPDirClientToServer {
			cb += uint64(len(d.Bytes))
		} else {
			sb += uint64(len(d.Bytes))
		}
	}
	zz.Assert(got.ClientBytes == cb && got.ServerBytes == sb, "stream.byte-counts")

	// source packet references
	pkts, err := got.Packets()
	zz.Assert(err == nil, "packets.noerr")
	zz.Assert(len(pkts) == len(s.Packets), "packets.count")
	if len(pkts) == len(s.Packets) {
		for i, p := range pkts {
			md := pcapmetadata.FromPacketMetadata(&s.Packets[i])
			zz.Assert(p.PcapFilename == md.PcapInfo.Filename, "packets.file")
			zz.Assert(p.PcapIndex == md.Index, "packets.index")
			wd := DirectionClientToServer
			if s.PacketDirections[i] == reassembly.TCPDirServerToClient {
				wd = DirectionServerToClient
			}
			zz.Assert(p.Direction == wd, "packets.direction")
			zz.Assert(p.Timestamp.Sub(s.Packets[i].Timestamp).Abs() < time.Microsecond, "packets.time")
		}
	}

	// payload per direction, in order of direction changes
	data, err := got.Data()
	zz.Assert(err == nil, "data.noerr")
	var wantC, wantS, gotC, gotS []byte
	var wantDirs, gotDirs []Direction
	for _, d := range s.Data {
		dir := DirectionClientToServer
		if s.PacketDirections[d.PacketIndex] == reassembly.TCPDirServerToClient {
			dir = DirectionServerToClient
			wantS = append(wantS, d.Bytes...)
		} else {
			wantC = append(wantC, d.Bytes...)
		}
		if len(wantDirs) == 0 || wantDirs[len(wantDirs)-1] != dir {
			wantDirs = append(wantDirs, dir)
		}
	}
	for _, d := range data {
		if d.Direction == DirectionServerToClient {
			gotS = append(gotS, d.Content...)
		} else {
			gotC = append(gotC, d.Content...)
		}
		if len(d.Content) != 0 && (len(gotDirs) == 0 || gotDirs[len(gotDirs)-1] != d.Direction) {
			gotDirs = append(gotDirs, d.Direction)
		}
	}
	zzSameBytes(gotC, wantC, "data.client")
	zzSameBytes(gotS, wantS, "data.server")
	zz.Assert(len(gotDirs) == len(wantDirs), "data.direction-changes")
	if len(gotDirs) == len(wantDirs) {
		for i := range wantDirs {
			zz.Assert(gotDirs[i] == wantDirs[i], "data.direction-order")
		}
	}

	// lookup by first source packet
	if zzSkipSourceLookup {
		return
	}
	md := pcapmetadata.FromPacketMetadata(&s.Packets[0])
	bySrc, err := r.StreamByFirstPacketSource(md.PcapInfo.Filename, md.Index)
	zz.Assert(err == nil && bySrc != nil, "byfirstpacket.found")
	if bySrc != nil {
		zz.Assert(bySrc.StreamID == w.id, "byfirstpacket.same-stream")
	}
}

func ZZ_C01_RoundTrip() {
	infos := []*pcapmetadata.PcapInfo{{Filename: "f0.pcap"}, {Filename: "f1.pcap"}}
	path := zz.TempDir() + "/test.idx"
	w, err := NewWriter(path)
	zz.Assert(err == nil, "newwriter.noerr")
	if err != nil {
		return
	}
	n := zz.Param("minstreams", 1) + zz.Choice("streams", 1+zz.Param("streams", 2)-zz.Param("minstreams", 1))
	var want []zzWantStream
	for i := 0; i < n; i++ {
		s := zzMkStream([]string{"a", "b", "c"}[i], infos[:zz.Param("files", 2)], zz.Choice("v6", zz.Param("ipversions", 1)) == 1)
		id := zz.U64("id")
		for _, o := range want {
			zz.Assume(o.id != id)
			// distinct first source packets (one packet starts one stream)
			m1, m2 := pcapmetadata.FromPacketMetadata(&s.Packets[0]), pcapmetadata.FromPacketMetadata(&o.s.Packets[0])
			zz.Assume(m1.PcapInfo != m2.PcapInfo || m1.Index != m2.Index)
		}
		ok, err := w.AddStream(s, id)
		zz.Assert(err == nil && ok, "addstream.accepted")
		want = append(want, zzWantStream{s, id})
	}
	r, err := w.Finalize()
	zz.Assert(err == nil && r != nil, "finalize.noerr")
	if r == nil {
		return
	}
	zz.Assert(r.StreamCount() == n, "reader.streamcount")
	zz.Assert(len(r.StreamIDs()) == n, "reader.streamids")
	for _, ws := range want {
		zzCheckStream(r, ws)
	}
	// nothing else is found
	other := zz.U64("other")
	for _, ws := range want {
		zz.Assume(other != ws.id)
	}
	got, err := r.StreamByID(other)
	zz.Assert(err == nil && got == nil, "streambyid.nothing-else")
	seen := 0
	r.AllStreams(func(s *Stream) error { seen++; return nil })
	zz.Assert(seen == n, "allstreams.count")
	r.Close()
}

// Representation switch with concretised size: a run of payload-less packets
// between two payload packets (skip counter and its saturation at 255);
// payload bytes and directions stay symbolic/enumerated.
func ZZ_C01_SkipCounter() {
	infos := []*pcapmetadata.PcapInfo{{Filename: "f0.pcap"}}
	gapPackets := []int{1, 254, 255, 256, 300}[zz.Choice("gap-packets", 5)]
	s := &streams.Stream{ClientAddr: []byte{10, 0, 0, 1}, ServerAddr: []byte{10, 0, 0, 2}, ClientPort: 1234, ServerPort: 80}
	t := zzBase
	total := gapPackets + 2
	for i := 0; i < total; i++ {
		ci := gopacket.CaptureInfo{Timestamp: t}
		pcapmetadata.AddPcapMetadata(&ci, infos[0], uint64(100+i))
		s.Packets = append(s.Packets, ci)
		dir := reassembly.TCPDirClientToServer
		if i == total-1 && zz.Choice("lastdir", 2) == 1 {
			dir = reassembly.TCPDirServerToClient
		}
		s.PacketDirections = append(s.PacketDirections, dir)
		t = t.Add(time.Millisecond)
	}
	s.Data = []streams.StreamData{
		{Bytes: zz.Bytes("first", 2), PacketIndex: 0},
		{Bytes: zz.Bytes("last", 2), PacketIndex: uint64(total - 1)},
	}
	path := zz.TempDir() + "/skip.idx"
	w, err := NewWriter(path)
	zz.Assert(err == nil, "newwriter.noerr")
	if err != nil {
		return
	}
	ok, err := w.AddStream(s, 7)
	zz.Assert(err == nil && ok, "addstream.accepted")
	r, err := w.Finalize()
	zz.Assert(err == nil && r != nil, "finalize.noerr")
	if r == nil {
		return
	}
	zzCheckStream(r, zzWantStream{s, 7})
	r.Close()
}
