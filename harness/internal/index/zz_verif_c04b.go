//go:build verif

package index

// C04 (B): sequences (THEN), negation, several conditions sharing
// expressions and several data sources, through the real
// dataConditionsContainer.add / finalize / makeDataConditionFilter.

import (
	"github.com/spq/pkappa2/internal/query"
	zz "github.com/spq/pkappa2/internal/zzverif"
)

// zzConv is a converter output as a data source: chunks of one symbolic byte.
type zzConv struct {
	dirs  []uint8
	bytes []byte
}

func (c *zzConv) Data(stream *Stream, moreDetails bool) ([]Data, uint64, uint64, bool, error) {
	return nil, 0, 0, false, nil
}

func (c *zzConv) DataForSearch(streamID uint64) ([2][]byte, [][2]int, uint64, uint64, bool, error) {
	var bufs [2][]byte
	sizes := [][2]int{{}}
	for i, d := range c.dirs {
		bufs[d] = append(bufs[d], c.bytes[i])
		last := sizes[len(sizes)-1]
		last[d]++
		sizes = append(sizes, last)
	}
	return bufs, sizes, uint64(len(bufs[0])), uint64(len(bufs[1])), true, nil
}

func zzNewConv(tag string, n int) *zzConv {
	c := &zzConv{bytes: zz.Bytes(tag+".b", n)}
	for i := 0; i < n; i++ {
		c.dirs = append(c.dirs, uint8(zz.Choice(tag+".dir", 2)))
	}
	return c
}

// zzSeqHolds: the reference scan — every element matches its one-byte atom in
// its direction strictly after the previous match in conversation order; an
// inverted condition requires its last element NOT to match there.
func zzSeqHolds(c *zzConv, cond *query.DataCondition) bool {
	n := len(c.dirs)
	cur := make([]bool, n+1)
	cur[0] = true
	anyOf := func(v []bool) bool {
		r := false
		for _, x := range v {
			r = zz.Or(r, x)
		}
		return r
	}
	for i, e := range cond.Elements {
		dir := e.Flags & query.DataRequirementSequenceFlagsDirection
		next := make([]bool, n+1)
		for p := 0; p <= n; p++ {
			none := true
			for j := p; j < n; j++ {
				m := zz.And(c.dirs[j] == dir, c.bytes[j] == e.Regex[0])
				next[j+1] = zz.Or(next[j+1], zz.And(cur[p], none, m))
				none = zz.And(none, zz.Not(m))
			}
		}
		if i == len(cond.Elements)-1 && cond.Inverted {
			return zz.And(anyOf(cur), zz.Not(anyOf(next)))
		}
		cur = next
	}
	return anyOf(cur)
}

func ZZ_C04_Sequences() {
	nsrc := 1 + zz.Choice("sources", zz.Param("sources", 2))
	convs := map[string]ConverterAccess{}
	var list []*zzConv
	for i := 0; i < nsrc; i++ {
		c := zzNewConv([]string{"s0", "s1"}[i], zz.Param("chunks", 3))
		list = append(list, c)
		convs[[]string{"conv0", "conv1"}[i]] = c
	}
	// with one source the filter names its converter; with two the filter has no
	// converter name and searches every cached output (the raw payload needs an
	// index file: its reader is a real, empty one)
	convName := "conv0"
	if nsrc == 2 {
		convName = "all-converters"
	}
	atoms := []string{"a", "b"}
	nconds := 1 + zz.Choice("conditions", zz.Param("conditions", 2))
	var conds []*query.DataCondition
	dcc := dataConditionsContainer{}
	for ci := 0; ci < nconds; ci++ {
		nel := 1 + zz.Choice("elements", zz.Param("elements", 2))
		dc := &query.DataCondition{Inverted: zz.Choice("inverted", 2) == 1}
		for k := 0; k < nel; k++ {
			dc.Elements = append(dc.Elements, query.DataConditionElement{
				Regex:         atoms[zz.Choice("atom", 2)],
				Flags:         uint8(zz.Choice("dir", 2)),
				ConverterName: convName,
			})
		}
		conds = append(conds, dc)
		zz.Assert(dcc.add(dc, "", nil) == nil, "add.noerr")
	}
	useConvs := convs
	if nsrc == 2 {
		// both sources answer for the single converter name the filter carries
		useConvs = map[string]ConverterAccess{"all-converters": &zzBoth{list}}
	}
	filters, err := dcc.finalize(nil, 0, nil, useConvs)
	zz.Assert(err == nil, "finalize.noerr")
	if err != nil {
		return
	}
	got := true
	for _, f := range filters {
		ok, err := f(&searchContext{}, &stream{StreamID: 1})
		zz.Assert(err == nil, "filter.noerr")
		got = got && ok
	}
	// oracle
	want := true
	for _, dc := range conds {
		want = zz.And(want, zzSeqHolds(list[0], dc))
	}
	zz.Observe("got", got)
	zz.Assert(zz.Iff(got, want), "sequence-filter-agrees-with-reference-scan")
}

// zzBoth is unused with a single source (kept for a later multi-source variant).
type zzBoth struct{ l []*zzConv }

func (b *zzBoth) Data(stream *Stream, moreDetails bool) ([]Data, uint64, uint64, bool, error) {
	return nil, 0, 0, false, nil
}
func (b *zzBoth) DataForSearch(id uint64) ([2][]byte, [][2]int, uint64, uint64, bool, error) {
	return b.l[0].DataForSearch(id)
}

// ZZ_C04_Captures: filters whose expression has named groups — some of which
// may take no part in a match — through the real filter: no panic, same
// answer as a plain scan of the direction's payload.
func ZZ_C04_Captures() {
	c := zzNewConv("s0", zz.Param("chunks", 2))
	type ex struct {
		re    string
		holds func(buf []byte) bool
	}
	has := func(buf []byte, x byte) bool {
		r := false
		for _, v := range buf {
			r = zz.Or(r, v == x)
		}
		return r
	}
	exprs := []ex{
		{`(?P<x>a)b`, func(b []byte) bool {
			r := false
			for i := 0; i+1 < len(b); i++ {
				r = zz.Or(r, zz.And(b[i] == 'a', b[i+1] == 'b'))
			}
			return r
		}},
		{`(?P<x>a)?b`, func(b []byte) bool { return has(b, 'b') }},
		{`(?P<x>a)|b`, func(b []byte) bool { return zz.Or(has(b, 'a'), has(b, 'b')) }},
		{`(?P<x>a*)b`, func(b []byte) bool { return has(b, 'b') }},
		{`b(?P<x>a)?`, func(b []byte) bool { return has(b, 'b') }},
	}
	e := exprs[zz.Choice("expr", len(exprs))]
	dir := zz.Choice("dir", 2)
	dc := &query.DataCondition{Elements: []query.DataConditionElement{{Regex: e.re, Flags: uint8(dir), ConverterName: "conv0"}}}
	dcc := dataConditionsContainer{}
	zz.Assert(dcc.add(dc, "", nil) == nil, "add.noerr")
	filters, err := dcc.finalize(nil, 0, nil, map[string]ConverterAccess{"conv0": c})
	zz.Assert(err == nil, "finalize.noerr")
	if err != nil {
		return
	}
	got := true
	for _, f := range filters {
		ok, err := f(&searchContext{}, &stream{StreamID: 1})
		zz.Assert(err == nil, "filter.noerr")
		got = got && ok
	}
	var buf []byte
	for i, d := range c.dirs {
		if int(d) == dir {
			buf = append(buf, c.bytes[i])
		}
	}
	zz.Observe("got", got)
	zz.Assert(zz.Iff(got, e.holds(buf)), "capture-filter-agrees-with-plain-scan")
}
