//go:build verif

package index

// C04 (C): payload filters over the raw payload stored in an index file — the
// data source closure of dataConditionsContainer.finalize with its reused
// buffers — driven by the real SearchStreams over several streams of one file:
// what a stream matches must depend on its own payload only.

import (
	"context"
	"time"

	"github.com/gopacket/gopacket"
	"github.com/gopacket/gopacket/reassembly"
	"github.com/spq/pkappa2/internal/index/streams"
	"github.com/spq/pkappa2/internal/query"
	pcapmetadata "github.com/spq/pkappa2/internal/tools/pcapMetadata"
	zz "github.com/spq/pkappa2/internal/zzverif"
)

type zzRawStream struct {
	c, s []byte // client payload (first packet), server payload (second packet)
}

func ZZ_C04_RawSource() {
	n := zz.Param("streams", 3)
	lens := [][2]int{{1, 1}, {0, 1}, {2, 0}, {0, 0}, {1, 2}}
	var pop []zzRawStream
	w, err := NewWriter(zz.TempDir() + "/raw.idx")
	zz.Assert(err == nil, "raw.newwriter")
	for i := 0; i < n; i++ {
		l := lens[zz.Choice("len", len(lens))]
		rs := zzRawStream{c: zz.Bytes("c", l[0]), s: zz.Bytes("s", l[1])}
		pop = append(pop, rs)
		s := &streams.Stream{ClientAddr: []byte{10, 0, 0, byte(i + 1)}, ServerAddr: []byte{10, 0, 1, 1}, ClientPort: uint16(1000 + i), ServerPort: 80}
		for k, b := range [][]byte{rs.c, rs.s} {
			ci := gopacket.CaptureInfo{Timestamp: zzBase.Add(time.Duration(i)*time.Second + time.Duration(k)*time.Millisecond)}
			pcapmetadata.AddPcapMetadata(&ci, zzC02Info, uint64(10*i+k))
			s.Packets = append(s.Packets, ci)
			s.PacketDirections = append(s.PacketDirections, []reassembly.TCPFlowDirection{reassembly.TCPDirClientToServer, reassembly.TCPDirServerToClient}[k])
			if len(b) > 0 {
				s.Data = append(s.Data, streams.StreamData{Bytes: b, PacketIndex: uint64(k)})
			}
		}
		ok, err := w.AddStream(s, uint64(i))
		zz.Assert(ok && err == nil, "raw.addstream")
	}
	r, err := w.Finalize()
	zz.Assert(err == nil && r != nil, "raw.finalize")
	if err != nil {
		return
	}

	// the filter: one atom in one direction, plain or negated; or client atom then server atom
	atom := []string{"a", "b"}
	form := zz.Choice("form", 3)
	dir := zz.Choice("dir", 2)
	dc := &query.DataCondition{}
	var holds func(rs zzRawStream) bool
	has := func(b []byte, x byte) bool {
		r := false
		for _, v := range b {
			r = zz.Or(r, v == x)
		}
		return r
	}
	side := func(rs zzRawStream, d int) []byte {
		if d == 0 {
			return rs.c
		}
		return rs.s
	}
	switch form {
	case 0, 1:
		dc.Elements = []query.DataConditionElement{{Regex: atom[0], Flags: uint8(dir)}}
		dc.Inverted = form == 1
		holds = func(rs zzRawStream) bool { return zz.Iff(has(side(rs, dir), 'a'), form == 0) }
	default: // client sends a, then the server sends b (the server's packet follows the client's)
		dc.Elements = []query.DataConditionElement{{Regex: atom[0], Flags: 0}, {Regex: atom[1], Flags: 1}}
		holds = func(rs zzRawStream) bool { return zz.And(has(rs.c, 'a'), has(rs.s, 'b')) }
	}
	qs := query.ConditionsSet{{dc}}
	res, _, _, err := SearchStreams(context.Background(), []*Reader{r}, nil, zzRefTime, qs, nil, []query.Sorting{{Key: query.SortingKeyID}}, 100, 0, nil, nil, false)
	zz.Assert(err == nil, "raw.search.noerr")
	if err != nil {
		return
	}
	got := make([]bool, n)
	for _, s := range res {
		if int(s.StreamID) < n {
			got[s.StreamID] = true
		}
	}
	for i, rs := range pop {
		zz.Assert(zz.Iff(got[i], holds(rs)), "raw.stream-matches-by-its-own-payload")
	}
}
