//go:build verif

package index

// C02: search returns exactly the visible streams the query denotes, each
// once, in the requested order, cut to the page; more <=> matches beyond it.

import (
	"context"
	"net"
	"time"

	"github.com/gopacket/gopacket"
	"github.com/gopacket/gopacket/reassembly"
	"github.com/spq/pkappa2/internal/index/streams"
	"github.com/spq/pkappa2/internal/query"
	"github.com/spq/pkappa2/internal/tools/bitmask"
	pcapmetadata "github.com/spq/pkappa2/internal/tools/pcapMetadata"
	zz "github.com/spq/pkappa2/internal/zzverif"
)

// zzDesc is the harness's own record of a stored stream.
type zzDesc struct {
	id             uint64
	cport, sport   uint16
	cbytes, sbytes int
	first, last    time.Duration // relative to zzBase
}

var zzC02Info = &pcapmetadata.PcapInfo{Filename: "c02.pcap"}

// zzC02Addrs: the endpoints of a stream; with the parameter mixed the stream
// with id 2 is an IPv6 one (its own host group in the index file).
func zzC02Addrs(d zzDesc) (c, s []byte) {
	if zz.Param("mixed", 0) == 1 && d.id == 2 {
		return []byte{0xfd, 0, 0, 0, 0, 0, 0, 0, 0, 0, 0, 0, 0, 0, 0, 3}, []byte{0xfd, 0, 0, 0, 0, 0, 0, 0, 0, 0, 0, 0, 0, 0, 1, 1}
	}
	return []byte{10, 0, 0, byte(d.id + 1)}, []byte{10, 0, 1, byte(1 + d.id%2)}
}

func zzC02Stream(d zzDesc, pktIndex uint64) *streams.Stream {
	ca, sa := zzC02Addrs(d)
	s := &streams.Stream{ClientAddr: ca, ServerAddr: sa, ClientPort: d.cport, ServerPort: d.sport}
	add := func(t time.Duration, dir reassembly.TCPFlowDirection, n int) {
		ci := gopacket.CaptureInfo{Timestamp: zzBase.Add(t)}
		pcapmetadata.AddPcapMetadata(&ci, zzC02Info, pktIndex)
		pktIndex++
		s.Packets = append(s.Packets, ci)
		s.PacketDirections = append(s.PacketDirections, dir)
		if n > 0 {
			b := make([]byte, n)
			for i := range b {
				b[i] = 'a' + byte(i)
			}
			s.Data = append(s.Data, streams.StreamData{Bytes: b, PacketIndex: uint64(len(s.Packets) - 1)})
		}
	}
	add(d.first, reassembly.TCPDirClientToServer, d.cbytes)
	add(d.last, reassembly.TCPDirServerToClient, d.sbytes)
	return s
}

// zzC02Stack builds the index stack (older first) and returns the visible
// population (newest version of every id).
func zzC02Stack(nFiles int) ([]*Reader, []zzDesc) {
	sec := time.Second
	file0 := []zzDesc{
		{id: 0, cport: 1000, sport: 80, cbytes: 2, sbytes: 1, first: 0, last: 10 * sec},
		{id: 1, cport: 1001, sport: 80, cbytes: 1, sbytes: 0, first: 1 * sec, last: 1500 * time.Millisecond},
		{id: 2, cport: 1002, sport: 443, cbytes: 0, sbytes: 3, first: 2 * sec, last: 2 * sec},
	}
	file1 := []zzDesc{
		{id: 1, cport: 1001, sport: 80, cbytes: 3, sbytes: 2, first: 1 * sec, last: 3 * sec}, // newer version of 1
		{id: 3, cport: 999, sport: 443, cbytes: 1, sbytes: 1, first: 2500 * time.Millisecond, last: 2600 * time.Millisecond},
	}
	if zz.Param("ties", 0) == 1 {
		// streams that tie on the first and on the last packet time
		file0[2].first, file0[2].last = 1*sec, 10*sec
	}
	dir := zz.TempDir()
	build := func(name string, ds []zzDesc) *Reader {
		w, err := NewWriter(dir + "/" + name)
		zz.Assert(err == nil, "c02.newwriter")
		for _, d := range ds {
			ok, err := w.AddStream(zzC02Stream(d, 100*d.id), d.id)
			zz.Assert(ok && err == nil, "c02.addstream")
		}
		r, err := w.Finalize()
		zz.Assert(err == nil && r != nil, "c02.finalize")
		return r
	}
	stack := []*Reader{build("0.idx", file0)}
	visible := append([]zzDesc(nil), file0...)
	if nFiles > 1 {
		if zz.Choice("newer-file", zz.Param("newerfiles", 2)) == 1 {
			// the newer file only continues stream 1: its highest id is the shadowed one
			stack = append(stack, build("1.idx", file1[:1]))
			visible = []zzDesc{file0[0], file1[0], file0[2]}
		} else {
			stack = append(stack, build("1.idx", file1))
			visible = []zzDesc{file0[0], file1[0], file0[2], file1[1]}
		}
	}
	return stack, visible
}

var zzRefTime = zzBase.Add(20 * time.Second)

func numCond(t query.NumberConditionSummandType, factor, number int) *query.NumberCondition {
	return &query.NumberCondition{Summands: []query.NumberConditionSummand{{Type: t, Factor: factor}}, Number: number}
}

// zzQuery returns the conditions and the harness's own reading of them.
func zzQuery(form int, tagBits []bool) (query.ConditionsSet, func(d zzDesc) bool) {
	rel := func(t time.Duration) int64 { return int64(zzBase.Add(t).Sub(zzRefTime)) }
	switch form {
	case 0: // lo <= id <= hi
		lo, hi := zz.Range("q.lo", 0, 4), zz.Range("q.hi", 0, 4)
		return query.ConditionsSet{{numCond(query.NumberConditionSummandTypeID, 1, -lo), numCond(query.NumberConditionSummandTypeID, -1, hi)}},
			func(d zzDesc) bool { return zz.And(int(d.id) >= lo, int(d.id) <= hi) }
	case 1: // ltime >= ref - T
		T := int64(zz.Range("q.t", 0, 1<<35-1))
		return query.ConditionsSet{{&query.TimeCondition{Summands: []query.TimeConditionSummand{{LTimeFactor: 1}}, Duration: time.Duration(T)}}},
			func(d zzDesc) bool { return rel(d.last)+T >= 0 }
	case 2: // ltime <= ref - T
		T := int64(zz.Range("q.t", 0, 1<<35-1))
		return query.ConditionsSet{{&query.TimeCondition{Summands: []query.TimeConditionSummand{{LTimeFactor: -1}}, Duration: time.Duration(-T)}}},
			func(d zzDesc) bool { return -rel(d.last)-T >= 0 }
	case 3: // ftime >= ref - T
		T := int64(zz.Range("q.t", 0, 1<<35-1))
		return query.ConditionsSet{{&query.TimeCondition{Summands: []query.TimeConditionSummand{{FTimeFactor: 1}}, Duration: time.Duration(T)}}},
			func(d zzDesc) bool { return rel(d.first)+T >= 0 }
	case 4: // cport == P
		P := zz.Range("q.p", 998, 1003)
		return query.ConditionsSet{{numCond(query.NumberConditionSummandTypeClientPort, 1, -P), numCond(query.NumberConditionSummandTypeClientPort, -1, P)}},
			func(d zzDesc) bool { return int(d.cport) == P }
	case 5: // (lo <= id <= hi) or cport >= P : a lookup-able and a non-lookup-able part
		lo, hi := zz.Range("q.lo", 0, 4), zz.Range("q.hi", 0, 4)
		P := zz.Range("q.p", 998, 1003)
		return query.ConditionsSet{
				{numCond(query.NumberConditionSummandTypeID, 1, -lo), numCond(query.NumberConditionSummandTypeID, -1, hi)},
				{numCond(query.NumberConditionSummandTypeClientPort, 1, -P)},
			},
			func(d zzDesc) bool { return zz.Or(zz.And(int(d.id) >= lo, int(d.id) <= hi), int(d.cport) >= P) }
	case 6: // cbytes >= N
		N := zz.Range("q.n", 0, 4)
		return query.ConditionsSet{{numCond(query.NumberConditionSummandTypeClientBytes, 1, -N)}},
			func(d zzDesc) bool { return d.cbytes >= N }
	case 7: // tag:x
		return query.ConditionsSet{{&query.TagCondition{TagName: "tag/x", Accept: query.TagConditionAcceptMatching | query.TagConditionAcceptUncertainMatching}}},
			func(d zzDesc) bool { return tagBits[d.id] }
	case 8: // sport == 80 and id <= hi
		hi := zz.Range("q.hi", 0, 4)
		return query.ConditionsSet{{numCond(query.NumberConditionSummandTypeServerPort, 1, -80), numCond(query.NumberConditionSummandTypeServerPort, -1, 80), numCond(query.NumberConditionSummandTypeID, -1, hi)}},
			func(d zzDesc) bool { return zz.And(d.sport == 80, int(d.id) <= hi) }
	case 10: // ftime >= ftime of the stream with id S (a sub-query) + D: a time variable of a sub-query
		S := zz.Range("q.s", 0, 3)
		D := int64(zz.Range("q.d", 0, 1<<33-1))
		idc := func(f, n int) *query.NumberCondition {
			return &query.NumberCondition{Summands: []query.NumberConditionSummand{{SubQuery: "sub", Type: query.NumberConditionSummandTypeID, Factor: f}}, Number: n}
		}
		return query.ConditionsSet{{idc(1, -S), idc(-1, S),
				&query.TimeCondition{Summands: []query.TimeConditionSummand{{FTimeFactor: 1}, {SubQuery: "sub", FTimeFactor: -1}}, Duration: time.Duration(-D)}}},
			func(d zzDesc) bool {
				r := false
				for _, o := range zzVisible {
					r = zz.Or(r, zz.And(int(o.id) == S, int64(d.first)-int64(o.first)-D >= 0))
				}
				return r
			}
	case 11, 12: // [-]chost:10.0.0.X  /  [-]shost:fd00::1:X  (literal address, X symbolic; streams of both address families)
		invert := zz.Choice("q.invert", 2) == 1
		x := byte(zz.Range("q.x", 0, 5))
		host := net.IP{10, 0, 0, x}
		src := query.HostConditionSourceTypeClient
		if form == 12 {
			host = net.IP{0xfd, 0, 0, 0, 0, 0, 0, 0, 0, 0, 0, 0, 0, 0, 1, x}
			src = query.HostConditionSourceTypeServer
		}
		return query.ConditionsSet{{&query.HostCondition{HostConditionSources: []query.HostConditionSource{{Type: src}}, Host: host, Mask4: zzFull4, Mask6: zzFull6, Invert: invert}}},
			func(d zzDesc) bool {
				c, sv := zzC02Addrs(d)
				h := c
				if form == 12 {
					h = sv
				}
				if len(h) != len(host) {
					return invert
				}
				return (h[len(h)-1] == x) != invert // (all other bytes are equal by construction)
			}
	case 15: // [-]shost:10.0.1.H/mask with the mask's and the address's last byte symbolic
		invert := zz.Choice("q.invert", 2) == 1
		m, hb := zz.U8("q.maskbyte"), zz.U8("q.hostbyte")
		host := net.IP{10, 0, 1, hb}
		return query.ConditionsSet{{&query.HostCondition{HostConditionSources: []query.HostConditionSource{{Type: query.HostConditionSourceTypeServer}}, Host: host, Mask4: net.IP{255, 255, 255, m}, Mask6: zzFull6, Invert: invert}}},
			func(d zzDesc) bool {
				_, sv := zzC02Addrs(d)
				if len(sv) != 4 {
					return invert
				}
				return ((sv[3]^hb)&m == 0) != invert
			}
	case 13, 14: // @sub:id:S [-]chost:@sub:chost@ / [-]shost:@sub:shost@ : the host of another stream
		invert := zz.Choice("q.invert", 2) == 1
		S := zz.Range("q.s", 0, 3)
		src := query.HostConditionSourceTypeClient
		if form == 14 {
			src = query.HostConditionSourceTypeServer
		}
		idc := func(f, n int) *query.NumberCondition {
			return &query.NumberCondition{Summands: []query.NumberConditionSummand{{SubQuery: "sub", Type: query.NumberConditionSummandTypeID, Factor: f}}, Number: n}
		}
		return query.ConditionsSet{{idc(1, -S), idc(-1, S),
				&query.HostCondition{HostConditionSources: []query.HostConditionSource{{Type: src}, {SubQuery: "sub", Type: src}}, Mask4: zzFull4, Mask6: zzFull6, Invert: invert}}},
			func(d zzDesc) bool {
				pick := func(d zzDesc) []byte {
					c, sv := zzC02Addrs(d)
					if form == 14 {
						return sv
					}
					return c
				}
				r := false
				for _, o := range zzVisible {
					same := string(pick(o)) == string(pick(d))
					r = zz.Or(r, zz.And(int(o.id) == S, same != invert))
				}
				return r
			}
	default: // time: some packet in [ref-T1, ref-T2]: ltime >= ref-T1 and ftime <= ref-T2
		T1 := int64(zz.Range("q.t1", 0, 1<<35-1))
		T2 := int64(zz.Range("q.t2", 0, 1<<35-1))
		return query.ConditionsSet{{
				&query.TimeCondition{Summands: []query.TimeConditionSummand{{LTimeFactor: 1}}, Duration: time.Duration(T1)},
				&query.TimeCondition{Summands: []query.TimeConditionSummand{{FTimeFactor: -1}}, Duration: time.Duration(-T2)},
			}},
			func(d zzDesc) bool { return zz.And(rel(d.last)+T1 >= 0, -rel(d.first)-T2 >= 0) }
	}
}

const zzNumQueryForms = 10

var (
	zzFull4 = net.IP{255, 255, 255, 255}
	zzFull6 = net.IP{255, 255, 255, 255, 255, 255, 255, 255, 255, 255, 255, 255, 255, 255, 255, 255}
)

// zzVisible: the visible population (for query forms that refer to other streams)
var zzVisible []zzDesc

type zzSortSpec struct {
	sorting []query.Sorting
	less    func(a, b zzDesc) bool
}

func zzSortings() []zzSortSpec {
	byID := func(a, b zzDesc) bool { return a.id < b.id }
	byFirst := func(a, b zzDesc) bool { return a.first < b.first }
	byLast := func(a, b zzDesc) bool { return a.last < b.last }
	byCB := func(a, b zzDesc) bool { return a.cbytes < b.cbytes }
	rev := func(f func(a, b zzDesc) bool) func(a, b zzDesc) bool { return func(a, b zzDesc) bool { return f(b, a) } }
	return []zzSortSpec{
		{nil, rev(byFirst)}, // default: -ftime
		{[]query.Sorting{{Key: query.SortingKeyID}}, byID},
		{[]query.Sorting{{Key: query.SortingKeyClientBytes}}, byCB},
		{[]query.Sorting{{Key: query.SortingKeyFirstPacketTime}}, byFirst},
		{[]query.Sorting{{Key: query.SortingKeyID, Dir: query.SortingDirDescending}}, rev(byID)},
		{[]query.Sorting{{Key: query.SortingKeyLastPacketTime, Dir: query.SortingDirDescending}}, rev(byLast)},
		{[]query.Sorting{{Key: query.SortingKeyServerPort}, {Key: query.SortingKeyID, Dir: query.SortingDirDescending}},
			func(a, b zzDesc) bool {
				if a.sport != b.sport {
					return a.sport < b.sport
				}
				return a.id > b.id
			}},
		// first key has a sorted lookup and ties, the second key decides
		{[]query.Sorting{{Key: query.SortingKeyFirstPacketTime}, {Key: query.SortingKeyID, Dir: query.SortingDirDescending}},
			func(a, b zzDesc) bool {
				if a.first != b.first {
					return a.first < b.first
				}
				return a.id > b.id
			}},
		{[]query.Sorting{{Key: query.SortingKeyLastPacketTime, Dir: query.SortingDirDescending}, {Key: query.SortingKeyClientPort}},
			func(a, b zzDesc) bool {
				if a.last != b.last {
					return a.last > b.last
				}
				return a.cport < b.cport
			}},
		{[]query.Sorting{{Key: query.SortingKeyLastPacketTime, Dir: query.SortingDirDescending}, {Key: query.SortingKeyClientPort, Dir: query.SortingDirDescending}},
			func(a, b zzDesc) bool {
				if a.last != b.last {
					return a.last > b.last
				}
				return a.cport > b.cport
			}},
	}
}

func ZZ_C02_Search() {
	nFiles := 1 + zz.Choice("files", zz.Param("indexfiles", 2))
	stack, visible := zzC02Stack(nFiles)
	zzVisible = visible
	tagBits := []bool{zz.Bool("tag0"), zz.Bool("tag1"), zz.Bool("tag2"), zz.Bool("tag3")}
	forms := zz.Param("queryforms", zzNumQueryForms)
	qs, truth := zzQuery(zz.Param("queryfrom", 0)+zz.Choice("query", forms), tagBits)
	sorts := zzSortings()
	sp := sorts[zz.Param("sortfrom", 0)+zz.Choice("sort", zz.Param("sortings", len(sorts)))]
	limit := uint([]int{1, 2, 3, 100}[zz.Choice("limit", zz.Param("limits", 4))])
	skip := uint(zz.Choice("skip", zz.Param("skips", 2)))

	// tag details: Matches from the symbolic bits
	td := query.TagDetails{}
	for i, b := range tagBits {
		if b {
			td.Matches.Set(uint(i))
		}
	}
	tags := map[string]query.TagDetails{"tag/x": td}

	// optional restriction to a set of ids
	var limitIDs *bitmask.LongBitmask
	restrict := zz.Choice("restrict", zz.Param("restricts", 2)) == 1
	allow := []bool{true, true, true, true}
	if restrict {
		limitIDs = &bitmask.LongBitmask{}
		for i := range allow {
			allow[i] = zz.Bool("allow")
			if allow[i] {
				limitIDs.Set(uint(i))
			}
		}
	}

	res, more, _, err := SearchStreams(context.Background(), stack, limitIDs, zzRefTime, qs, nil, sp.sorting, limit, skip, tags, nil, false)
	zz.Assert(err == nil, "search.noerr")
	if err != nil {
		return
	}

	// the oracle: visible, allowed, matching streams in the requested order
	var matching []zzDesc
	matchCount := 0
	isMatch := make([]bool, len(visible))
	for i, d := range visible {
		isMatch[i] = zz.And(truth(d), allow[d.id])
		matchCount += zz.IteInt(isMatch[i], 1, 0)
	}
	_ = matching
	wantLen := zz.IteInt(matchCount > int(skip), zz.IteInt(matchCount-int(skip) < int(limit), matchCount-int(skip), int(limit)), 0)
	zz.Assert(len(res) == wantLen, "search.page-length")
	zz.Assert(zz.Iff(more, matchCount > int(skip+limit)), "search.more-flag")
	zz.Observe("n", len(res))
	zz.Observe("more", more)

	find := func(id uint64) int {
		for i, d := range visible {
			if d.id == id {
				return i
			}
		}
		return -1
	}
	seen := map[uint64]bool{}
	for k, s := range res {
		vi := find(s.StreamID)
		zz.Assert(vi >= 0, "search.only-visible-streams")
		if vi < 0 {
			return
		}
		zz.Assert(!seen[s.StreamID], "search.each-once")
		seen[s.StreamID] = true
		zz.Assert(isMatch[vi], "search.only-matching")
		d := visible[vi]
		// the newest version is returned
		zz.Assert(int(s.ClientBytes) == d.cbytes && int(s.ServerBytes) == d.sbytes, "search.newest-version")
		// rank: exactly skip+k matching streams sort strictly before this one,
		// up to ties (streams that compare equal may come in any order)
		before, ties := 0, 0
		for j, o := range visible {
			if j == vi {
				continue
			}
			before += zz.IteInt(zz.And(isMatch[j], sp.less(o, d)), 1, 0)
			ties += zz.IteInt(zz.And(isMatch[j], zz.Not(sp.less(o, d)), zz.Not(sp.less(d, o))), 1, 0)
		}
		pos := int(skip) + k
		zz.Assert(zz.And(before <= pos, pos <= before+ties), "search.order-and-page")
	}
}
