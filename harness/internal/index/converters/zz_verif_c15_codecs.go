//go:build verif

package converters

// C15, layer 0: the variable-length codecs of the cache file format.

import (
	"bufio"
	"bytes"

	zz "github.com/spq/pkappa2/internal/zzverif"
)

// every uint64 round-trips through writeVarInt/readVarInt, lengths agree,
// the reader consumes exactly the encoded bytes.
func ZZ_C15_VarInt() {
	x := zz.U64("x")
	var buf bytes.Buffer
	n, err := writeVarInt(&buf, x)
	zz.Assert(err == nil, "varint.write.noerr")
	zz.Assert(n == buf.Len(), "varint.write.len")
	zz.Assert(n >= 1 && n <= 10, "varint.write.range")
	buf.WriteByte(zz.U8("trailer")) // must not be consumed
	v, m, err := readVarInt(&buf)
	zz.Assert(err == nil, "varint.read.noerr")
	zz.Assert(v == x, "varint.roundtrip")
	zz.Assert(m == n, "varint.read.len")
	zz.Assert(buf.Len() == 1, "varint.read.exact")
	zz.Observe("n", n)
}

func ZZ_C15_VarBytes() {
	l := zz.Choice("len", zz.Param("bytes", 4)+1)
	data := zz.Bytes("d", l)
	var buf bytes.Buffer
	n, err := writeVarBytes(&buf, data)
	zz.Assert(err == nil, "varbytes.write.noerr")
	zz.Assert(n == buf.Len(), "varbytes.write.len")
	buf.WriteByte(zz.U8("trailer"))
	got, m, err := readVarBytes(&buf)
	zz.Assert(err == nil, "varbytes.read.noerr")
	zz.Assert(m == n, "varbytes.read.len")
	zz.Assert(buf.Len() == 1, "varbytes.read.exact")
	// the decoder may deliver one extra zero byte of padding only if the
	// encoder's bit count requires it; the cache code only relies on the
	// first len(data) bytes and on len==0 <=> empty
	zz.Assert((len(got) == 0) == (l == 0), "varbytes.empty")
	zz.Assert(len(got) >= l, "varbytes.length")
	for i := 0; i < l; i++ {
		zz.Assert(got[i] == data[i], "varbytes.roundtrip")
	}
	for i := l; i < len(got); i++ {
		zz.Assert(got[i] == 0, "varbytes.padding-zero")
	}
}

func ZZ_C15_String() {
	l := zz.Choice("len", zz.Param("bytes", 3)+1)
	s := string(zz.Bytes("s", l))
	var buf bytes.Buffer
	n, err := writeString(&buf, s)
	zz.Assert(err == nil, "string.write.noerr")
	zz.Assert(n == buf.Len(), "string.write.len")
	buf.WriteByte(zz.U8("trailer"))
	r := bufio.NewReader(&buf)
	got, m, err := readString(r)
	zz.Assert(err == nil, "string.read.noerr")
	zz.Assert(m == n, "string.read.len")
	zz.Assert(got == s, "string.roundtrip")
	zz.Assert(r.Buffered() == 1, "string.read.exact")
}

// a truncated varint / varbytes / string is an error, never a value or a panic
func ZZ_C15_Truncated() {
	x := zz.U64("x")
	var buf bytes.Buffer
	n, _ := writeVarInt(&buf, x)
	cut := zz.Choice("cut", 10)
	zz.Assume(cut < n)
	buf.Truncate(cut)
	_, _, err := readVarInt(&buf)
	zz.Assert(err != nil, "varint.truncated.error")
}
