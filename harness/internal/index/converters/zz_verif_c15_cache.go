//go:build verif

package converters

// C15, layer 1: the cache file behaves like a map stream -> latest output
// under store / invalidate / reset / reopen (load-time duplicate resolution
// and compaction) and tolerates a partly written last record.

import (
	"time"

	"github.com/spq/pkappa2/internal/index"
	"github.com/spq/pkappa2/internal/tools/bitmask"
	zz "github.com/spq/pkappa2/internal/zzverif"
)

var zzT0 = time.Unix(1700000000, 0).UTC()

var zzIDs = []uint64{3, 70}

// zzChunks: 1..maxChunks chunks (0..maxChunks with emptylist=1: a converter
// may answer with no output at all, which is stored like any other); directions, lengths and content types are
// choices, content bytes symbolic, times t0 + fixed increasing offsets.
func zzChunks(tag string, maxChunks int) []index.Data {
	least := 1 - zz.Param("emptylist", 0)
	n := least + zz.Choice(tag+".n", maxChunks+1-least)
	res := make([]index.Data, n)
	t := zzT0
	for i := range res {
		res[i].Direction = index.Direction(zz.Choice(tag+".dir", 2))
		l := 1 + zz.Choice(tag+".len", zz.Param("chunklen", 2))
		res[i].Content = zz.Bytes(tag+".c", l)
		t = t.Add([]time.Duration{time.Microsecond, 0, 1500 * time.Millisecond}[zz.Choice(tag+".dt", zz.Param("dts", 3))])
		res[i].Time = t
		res[i].ContentType = []string{"", "bc", "a"}[zz.Choice(tag+".ct", zz.Param("ctypes", 2))]
	}
	return res
}

func zzSameData(got []index.Data, want []index.Data, label string) {
	zz.Assert(len(got) == len(want), label+".chunk-count")
	if len(got) != len(want) {
		return
	}
	for i := range want {
		zz.Assert(got[i].Direction == want[i].Direction, label+".direction")
		zz.Assert(len(got[i].Content) == len(want[i].Content), label+".content-length")
		if len(got[i].Content) == len(want[i].Content) {
			for j := range want[i].Content {
				zz.Assert(got[i].Content[j] == want[i].Content[j], label+".content")
			}
		}
		zz.Assert(got[i].Time.Equal(want[i].Time), label+".time")
		zz.Assert(got[i].ContentType == want[i].ContentType, label+".content-type")
	}
}

// zzCheckModel compares everything observable with the model map.
func zzCheckModel(cf *cacheFile, model map[uint64][]index.Data, label string) {
	zz.Assert(cf.StreamCount() == uint64(len(model)), label+".streamcount")
	for _, id := range zzIDs {
		want, stored := model[id]
		zz.Assert(cf.Contains(id) == stored, label+".contains")
		got, cb, sb, err := cf.data(id, zzT0)
		zz.Assert(err == nil, label+".data.noerr")
		if !stored {
			zz.Assert(got == nil, label+".data.absent")
			continue
		}
		zzSameData(got, want, label+".data")
		var wc, ws uint64
		var cbytes, sbytes []byte
		for _, d := range want {
			if d.Direction == index.DirectionClientToServer {
				wc += uint64(len(d.Content))
				cbytes = append(cbytes, d.Content...)
			} else {
				ws += uint64(len(d.Content))
				sbytes = append(sbytes, d.Content...)
			}
		}
		zz.Assert(cb == wc && sb == ws, label+".data.bytecounts")
		bufs, sizes, cb2, sb2, cached, err := cf.DataForSearch(id)
		zz.Assert(err == nil && cached, label+".search.noerr")
		zz.Assert(cb2 == wc && sb2 == ws, label+".search.bytecounts")
		zz.Assert(len(bufs[0]) == len(cbytes) && len(bufs[1]) == len(sbytes), label+".search.lengths")
		if len(bufs[0]) == len(cbytes) && len(bufs[1]) == len(sbytes) {
			for j := range cbytes {
				zz.Assert(bufs[0][j] == cbytes[j], label+".search.client")
			}
			for j := range sbytes {
				zz.Assert(bufs[1][j] == sbytes[j], label+".search.server")
			}
		}
		// cumulative chunk boundaries: one entry per chunk, in order
		zz.Assert(len(sizes) == len(want)+1, label+".search.boundaries")
		if len(sizes) == len(want)+1 {
			acc := [2]int{}
			for k, d := range want {
				acc[d.Direction] += len(d.Content)
				zz.Assert(sizes[k+1] == acc, label+".search.boundary")
			}
		}
	}
}

func ZZ_C15_Cache() {
	path := zz.TempDir() + "/conv.cache"
	cf, err := NewCacheFile(path)
	zz.Assert(err == nil, "open.noerr")
	if err != nil {
		return
	}
	model := map[uint64][]index.Data{}
	zzInvalidated = map[uint64]bool{}
	nops := zz.Param("ops", 2)
	for step := 0; step < nops; step++ {
		op := zz.Choice("op", 4+zz.Param("forcecompaction", 0))
		if op == 4 {
			// store preceded by the in-session compaction: its trigger (>= 16 MiB
			// and >= 50% of the file unused) only compares the freeSize counter,
			// which is raised artificially; everything compaction works with
			// (freeStart, the record list, the file) is the real state
			cf.freeSize += cleanupMinFreeSize + cf.fileSize
			op = 0
		}
		switch op {
		case 0: // store
			id := zzIDs[zz.Choice("id", len(zzIDs))]
			ch := zzChunks("st", zz.Param("chunks", 2))
			zz.Assert(cf.setData(id, zzT0, ch) == nil, "store.noerr")
			model[id] = ch
			delete(zzInvalidated, id)
		case 1: // invalidate
			id := zzIDs[zz.Choice("id", len(zzIDs))]
			var bm bitmask.LongBitmask
			bm.Set(uint(id))
			inv := cf.InvalidateChangedStreams(&bm)
			_, had := model[id]
			zz.Assert(inv.IsSet(uint(id)) == had, "invalidate.reported")
			delete(model, id)
			if had {
				zzInvalidated[id] = true
			}
		case 2: // reset
			zz.Assert(cf.Reset() == nil, "reset.noerr")
			model = map[uint64][]index.Data{}
			zzInvalidated = map[uint64]bool{}
		case 3: // close and reopen (duplicate resolution + compaction at load)
			zz.Assert(cf.Close() == nil, "close.noerr")
			cf, err = NewCacheFile(path)
			zz.Assert(err == nil, "reopen.noerr")
			if err != nil {
				return
			}
			if zz.Known("C15-invalidate-not-persisted") {
				// known finding: an invalidation is forgotten by a reopen; exactly
				// the histories "invalidate(id) ... reopen" without a store(id) or
				// reset in between are excluded
				zz.Assume(len(zzInvalidated) == 0)
			}
		}
		zzCheckModel(cf, model, "after-op")
	}
	cf.Close()
}

var zzInvalidated = map[uint64]bool{}

// a file cut inside its last record still opens and serves every complete record
func ZZ_C15_Cut() {
	path := zz.TempDir() + "/conv.cache"
	cf, err := NewCacheFile(path)
	zz.Assert(err == nil, "open.noerr")
	if err != nil {
		return
	}
	first := zzChunks("a", zz.Param("chunks", 2))
	zz.Assert(cf.setData(zzIDs[0], zzT0, first) == nil, "store.noerr")
	cf.file.Sync()
	sizeAfterFirst := zz.FSSize(path)
	second := zzChunks("b", 1)
	zz.Assert(cf.setData(zzIDs[1], zzT0, second) == nil, "store.noerr")
	zz.Assert(cf.Close() == nil, "close.noerr")
	full := zz.FSSize(path)
	// cut anywhere inside the second record (header included)
	cut := sizeAfterFirst + zz.Choice("cut", full-sizeAfterFirst)
	zz.FSTruncate(path, cut)
	cf2, err := NewCacheFile(path)
	zz.Assert(err == nil, "cut.opens")
	if err != nil {
		return
	}
	zzCheckModel(cf2, map[uint64][]index.Data{zzIDs[0]: first}, "after-cut")
	// further history: the lost output is stored again, the service is shut down and started again
	third := []index.Data{{Direction: index.DirectionServerToClient, Content: zz.Bytes("c", 1), Time: zzT0}}
	zz.Assert(cf2.setData(zzIDs[1], zzT0, third) == nil, "cut.store-again.noerr")
	zzCheckModel(cf2, map[uint64][]index.Data{zzIDs[0]: first, zzIDs[1]: third}, "after-cut-and-store")
	zz.Assert(cf2.Close() == nil, "close.noerr")
	cf3, err := NewCacheFile(path)
	zz.Assert(err == nil, "cut.store-again.reopens")
	if err != nil {
		return
	}
	zzCheckModel(cf3, map[uint64][]index.Data{zzIDs[0]: first, zzIDs[1]: third}, "after-cut-store-and-reopen")
	cf3.Close()
}

// Witness of known finding C15-invalidate-not-persisted: store, invalidate,
// reopen — the invalidated output is served again.
func ZZ_C15_KF_InvalidateReopen() {
	path := zz.TempDir() + "/conv.cache"
	cf, err := NewCacheFile(path)
	zz.Assert(err == nil, "open.noerr")
	ch := []index.Data{{Direction: index.DirectionClientToServer, Content: zz.Bytes("c", 1), Time: zzT0}}
	zz.Assert(cf.setData(zzIDs[0], zzT0, ch) == nil, "store.noerr")
	var bm bitmask.LongBitmask
	bm.Set(uint(zzIDs[0]))
	cf.InvalidateChangedStreams(&bm)
	zz.Assert(cf.Close() == nil, "close.noerr")
	cf, err = NewCacheFile(path)
	zz.Assert(err == nil, "reopen.noerr")
	zz.Assert(!cf.Contains(zzIDs[0]), "invalidated-output-gone-after-reopen")
	cf.Close()
}
