//go:build verif

package bitmask

// C17: the three bitmask representations behave like sets of integers.
// One inductive step per operation from an arbitrary valid state; the oracle
// is the integer-set model, checked pointwise through a fresh symbolic bit q.

import (
	"math/bits"

	zz "github.com/spq/pkappa2/internal/zzverif"
)

// ---------------------------------------------------------------- helpers

func zzWords(name string, n int) []uint64 {
	w := make([]uint64, n)
	for i := range w {
		w[i] = zz.U64(name)
	}
	return w
}

// zzWordsBit is the harness's own reading of a word vector (independent of IsSet).
func zzWordsBit(w []uint64, q uint) bool {
	res := false
	for i := range w {
		hit := q/64 == uint(i)
		res = zz.Or(res, zz.And(hit, (w[i]>>(q%64))&1 != 0))
	}
	return res
}

// zzLong: an arbitrary LongBitmask of 0..max words. The backing array may have
// spare capacity holding arbitrary old words (And truncates by reslicing), so
// that is part of an arbitrary valid state.
func zzLong(name string, max int) (LongBitmask, []uint64) {
	n := zz.Choice(name+".n", max+1)
	spare := zz.Choice(name+".spare", 2)
	w := zzWords(name, n+spare)[:n]
	cp := append([]uint64(nil), w...)
	return WrapAsLongBitmask(w), cp
}

func zzShort(name string, max int) (ShortBitmask, []uint64) {
	n := 1 + zz.Choice(name+".n", max)
	w := zzWords(name, n)
	var head ShortBitmask
	cur := &head
	for i := 0; i < n; i++ {
		cur.mask = w[i]
		if i+1 < n {
			cur.next = &ShortBitmask{}
			cur = cur.next
		}
	}
	return head, w
}

func zzShortWords(bm *ShortBitmask) []uint64 {
	var w []uint64
	for c := bm; c != nil; c = c.next {
		w = append(w, c.mask)
	}
	return w
}

const zzConnLimit = uint(1) << 62

// zzConn builds an arbitrary valid ConnectedBitmask: runs sorted, disjoint and
// not touching (the canonical form every constructor and operation is meant
// to keep), values below 2^62.
func zzConn(name string, max int) ConnectedBitmask {
	n := zz.Choice(name+".n", max+1)
	bm := ConnectedBitmask{}
	for i := 0; i < n; i++ {
		lo, hi := uint(zz.U64(name+".min")), uint(zz.U64(name+".max"))
		bm.entries = append(bm.entries, connectedBitmaskEntry{min: lo, max: hi})
	}
	zz.Assume(zzConnValidBelow(bm, zzConnLimit))
	return bm
}

// after an operation values may have grown by one (Inject)
func zzConnValid(bm ConnectedBitmask) bool { return zzConnValidBelow(bm, zzConnLimit+1) }

func zzConnValidBelow(bm ConnectedBitmask, limit uint) bool {
	ok := true
	for i, e := range bm.entries {
		ok = zz.And(ok, e.min <= e.max, e.max < limit)
		if i > 0 {
			ok = zz.And(ok, bm.entries[i-1].max+1 < e.min)
		}
	}
	return ok
}

// zzConnBit is the harness's own reading of a run list.
func zzConnBit(bm ConnectedBitmask, q uint) bool {
	res := false
	for _, e := range bm.entries {
		res = zz.Or(res, zz.And(e.min <= q, q <= e.max))
	}
	return res
}

func zzBinModel(op int, a, b bool) bool {
	switch op {
	case 0:
		return zz.Or(a, b)
	case 1:
		return zz.And(a, b)
	case 2:
		return zz.Not(zz.Iff(a, b))
	default:
		return zz.And(a, zz.Not(b))
	}
}

var zzOpNames = []string{"or", "and", "xor", "sub"}

// ---------------------------------------------------------------- Long

func ZZ_C17_Long_IsSet() {
	a, w := zzLong("a", zz.Param("words", 3))
	q := uint(zz.U64("q"))
	zz.Assert(zz.Iff(a.IsSet(q), zzWordsBit(w, q)), "long.isset")
}

func ZZ_C17_Long_Point() {
	a, w := zzLong("a", zz.Param("words", 3))
	limit := uint(64 * (len(w) + 2))
	p := uint(zz.U64("p"))
	zz.Assume(p < limit)
	q := uint(zz.U64("q"))
	before := zzWordsBit(w, q)
	op := zz.Choice("op", 3)
	switch op {
	case 0:
		a.Set(p)
		zz.Assert(zz.Iff(a.IsSet(q), zz.Or(before, p == q)), "long.set")
	case 1:
		a.Unset(p)
		zz.Assert(zz.Iff(a.IsSet(q), zz.And(before, p != q)), "long.unset")
	case 2:
		a.Flip(p)
		zz.Assert(zz.Iff(a.IsSet(q), zz.Not(zz.Iff(before, p == q))), "long.flip")
	}
}

func ZZ_C17_Long_Binary() {
	mw := zz.Param("words", 3)
	a, wa := zzLong("a", mw)
	b, wb := zzLong("b", mw)
	q := uint(zz.U64("q"))
	aq, bq := zzWordsBit(wa, q), zzWordsBit(wb, q)
	op := zz.Choice("op", 4)
	cp := zz.Choice("copy", 2)
	var r LongBitmask
	if cp == 1 {
		switch op {
		case 0:
			r = a.OrCopy(b)
		case 1:
			r = a.AndCopy(b)
		case 2:
			r = a.XorCopy(b)
		default:
			r = a.SubCopy(b)
		}
		// the receiver and the operand are unchanged
		zz.Assert(zz.Iff(a.IsSet(q), aq), "long.copy.receiver-unchanged")
	} else {
		switch op {
		case 0:
			a.Or(b)
		case 1:
			a.And(b)
		case 2:
			a.Xor(b)
		default:
			a.Sub(b)
		}
		r = a
	}
	zz.Assert(zz.Iff(b.IsSet(q), bq), "long.operand-unchanged")
	zz.Assert(zz.Iff(r.IsSet(q), zzBinModel(op, aq, bq)), "long."+zzOpNames[op])
	// the result is independent of the operands: changing it changes neither
	t := uint(zz.U64("t"))
	zz.Assume(t < uint(64*(mw+1)))
	r.Flip(t)
	zz.Assert(zz.Iff(b.IsSet(q), bq), "long.result-independent-of-operand")
	if cp == 1 {
		zz.Assert(zz.Iff(a.IsSet(q), aq), "long.result-independent-of-receiver")
	}
}

func ZZ_C17_Long_Observers() {
	a, w := zzLong("a", zz.Param("words", 3))
	q := uint(zz.U64("q"))
	aq := zzWordsBit(w, q)
	// Len: 0 and nothing set, or bit Len-1 set and nothing at or above Len
	l := a.Len()
	zz.Assert(l >= 0, "long.len.nonneg")
	zz.Assert(zz.Implies(l == 0, zz.Not(aq)), "long.len.zero")
	zz.Assert(zz.Implies(zz.And(l > 0, q >= uint(l)), zz.Not(aq)), "long.len.upper")
	if l > 0 {
		zz.Assert(a.IsSet(uint(l-1)), "long.len.attained")
	}
	// IsZero
	z := a.IsZero()
	zz.Assert(zz.Implies(z, zz.Not(aq)), "long.iszero.sound")
	zz.Assert(zz.Iff(z, l == 0), "long.iszero.len")
	// Copy and Shrink keep the set; Shrink leaves no trailing zero word
	c := a.Copy()
	zz.Assert(zz.Iff(c.IsSet(q), aq), "long.copy")
	c.Shrink()
	zz.Assert(zz.Iff(c.IsSet(q), aq), "long.shrink.same-set")
	if n := len(c.Mask()); n > 0 {
		zz.Assert(c.Mask()[n-1] != 0, "long.shrink.canonical")
	}
	zz.Assert(zz.Iff(a.IsSet(q), aq), "long.copy.independent")
}

func ZZ_C17_Long_Next() {
	a, w := zzLong("a", zz.Param("words", 3))
	from := uint(zz.U64("from"))
	q := uint(zz.U64("q"))
	aq := zzWordsBit(w, q)
	r := a.TrailingZerosFrom(from)
	if r < 0 {
		zz.Assert(r == -1, "long.tzf.minus-one")
		zz.Assert(zz.Implies(q >= from, zz.Not(aq)), "long.tzf.none")
	} else {
		hit := from + uint(r)
		zz.Assert(a.IsSet(hit), "long.tzf.hit-set")
		zz.Assert(zz.Implies(zz.And(q >= from, q < hit), zz.Not(aq)), "long.tzf.first")
	}
	bit := from
	ok := a.Next(&bit)
	zz.Assert(zz.Iff(ok, r >= 0), "long.next.agrees")
	if ok {
		zz.Assert(bit == from+uint(r), "long.next.position")
	} else {
		zz.Assert(bit == from, "long.next.unchanged")
	}
}

// OnesCount: word-level oracle (every word counted exactly once; the per-word
// population count is math/bits, which is trusted) plus the bit-level
// inductive characterisation on a single word with a concretised position.
func ZZ_C17_Long_OnesCount() {
	a, w := zzLong("a", zz.Param("words", 3))
	sum := 0
	for _, x := range w {
		sum += bits.OnesCount64(x)
	}
	zz.Assert(a.OnesCount() == sum, "long.onescount.words")
	zz.Assert(zz.Implies(a.IsZero(), a.OnesCount() == 0), "long.onescount.zero")
}

func ZZ_C17_OnesCount_Bit() {
	x := zz.U64("w")
	p := []uint{0, 63}[zz.Choice("p", 2)]
	a := WrapAsLongBitmask([]uint64{x})
	s := MakeShortBitmask(x)
	was := a.IsSet(p)
	n0 := a.OnesCount()
	zz.Assert(s.OnesCount() == n0, "onescount.long-short")
	a.Set(p)
	s.Set(p)
	zz.Assert(a.OnesCount() == n0+zz.IteInt(was, 0, 1), "long.onescount.set")
	zz.Assert(s.OnesCount() == n0+zz.IteInt(was, 0, 1), "short.onescount.set")
}

func ZZ_C17_Long_Equal() {
	mw := zz.Param("words", 2)
	a, wa := zzLong("a", mw)
	b, wb := zzLong("b", mw)
	q := uint(zz.U64("q"))
	eq := a.Equal(b)
	zz.Assert(zz.Iff(eq, b.Equal(a)), "long.equal.symmetric")
	// equal => same membership everywhere
	zz.Assert(zz.Implies(eq, zz.Iff(zzWordsBit(wa, q), zzWordsBit(wb, q))), "long.equal.sound")
	// not equal => some word differs (finite witness set: the word vectors)
	if !eq {
		diff := false
		n := len(wa)
		if len(wb) > n {
			n = len(wb)
		}
		for i := 0; i < n; i++ {
			var x, y uint64
			if i < len(wa) {
				x = wa[i]
			}
			if i < len(wb) {
				y = wb[i]
			}
			diff = zz.Or(diff, x != y)
		}
		zz.Assert(diff, "long.equal.complete")
	}
}

func ZZ_C17_Long_Inject() {
	a, w := zzLong("a", zz.Param("words", 2))
	p := uint(zz.U64("p"))
	zz.Assume(p < uint(64*(len(w)+2)))
	v := zz.Bool("v")
	q := uint(zz.U64("q"))
	zz.Assume(q < uint(64*(len(w)+3)))
	zz.Assume(q >= 1)
	aq, aq1 := zzWordsBit(w, q), zzWordsBit(w, q-1)
	a.Inject(p, v)
	want := zz.IteBool(q < p, aq, zz.IteBool(q == p, v, aq1))
	zz.Assert(zz.Iff(a.IsSet(q), want), "long.inject")
}

// ---------------------------------------------------------------- Short

func ZZ_C17_Short_IsSet() {
	a, w := zzShort("a", zz.Param("words", 3))
	q := uint(zz.U64("q"))
	zz.Assert(zz.Iff(a.IsSet(q), zzWordsBit(w, q)), "short.isset")
}

func ZZ_C17_Short_Point() {
	a, w := zzShort("a", zz.Param("words", 3))
	p := uint(zz.U64("p"))
	zz.Assume(p < uint(64*(len(w)+2)))
	q := uint(zz.U64("q"))
	before := zzWordsBit(w, q)
	op := zz.Choice("op", 3)
	switch op {
	case 0:
		a.Set(p)
		zz.Assert(zz.Iff(a.IsSet(q), zz.Or(before, p == q)), "short.set")
	case 1:
		a.Unset(p)
		zz.Assert(zz.Iff(a.IsSet(q), zz.And(before, p != q)), "short.unset")
	case 2:
		a.Flip(p)
		zz.Assert(zz.Iff(a.IsSet(q), zz.Not(zz.Iff(before, p == q))), "short.flip")
	}
}

func ZZ_C17_Short_Binary() {
	mw := zz.Param("words", 3)
	a, wa := zzShort("a", mw)
	b, wb := zzShort("b", mw)
	q := uint(zz.U64("q"))
	aq, bq := zzWordsBit(wa, q), zzWordsBit(wb, q)
	op := zz.Choice("op", 4)
	cp := zz.Choice("copy", 2)
	var r ShortBitmask
	if cp == 1 {
		switch op {
		case 0:
			r = a.OrCopy(b)
		case 1:
			r = a.AndCopy(b)
		case 2:
			r = a.XorCopy(b)
		default:
			r = a.SubCopy(b)
		}
		zz.Assert(zz.Iff(a.IsSet(q), aq), "short.copy.receiver-unchanged")
	} else {
		switch op {
		case 0:
			a.Or(b)
		case 1:
			a.And(b)
		case 2:
			a.Xor(b)
		default:
			a.Sub(b)
		}
		r = a
	}
	zz.Assert(zz.Iff(b.IsSet(q), bq), "short.operand-unchanged")
	zz.Assert(zz.Iff(r.IsSet(q), zzBinModel(op, aq, bq)), "short."+zzOpNames[op])
	t := uint(zz.U64("t"))
	zz.Assume(t < uint(64*(mw+1)))
	r.Flip(t)
	zz.Assert(zz.Iff(b.IsSet(q), bq), "short.result-independent-of-operand")
	if cp == 1 {
		zz.Assert(zz.Iff(a.IsSet(q), aq), "short.result-independent-of-receiver")
	}
}

func ZZ_C17_Short_Observers() {
	a, w := zzShort("a", zz.Param("words", 3))
	q := uint(zz.U64("q"))
	aq := zzWordsBit(w, q)
	l := a.Len()
	zz.Assert(l >= 0, "short.len.nonneg")
	zz.Assert(zz.Implies(l == 0, zz.Not(aq)), "short.len.zero")
	zz.Assert(zz.Implies(zz.And(l > 0, q >= uint(l)), zz.Not(aq)), "short.len.upper")
	if l > 0 {
		zz.Assert(a.IsSet(uint(l-1)), "short.len.attained")
	}
	z := a.IsZero()
	zz.Assert(zz.Iff(z, l == 0), "short.iszero.len")
	c := a.Copy()
	zz.Assert(zz.Iff(c.IsSet(q), aq), "short.copy")
	c.Shrink()
	zz.Assert(zz.Iff(c.IsSet(q), aq), "short.shrink.same-set")
	cw := zzShortWords(&c)
	if len(cw) > 1 {
		zz.Assert(cw[len(cw)-1] != 0, "short.shrink.canonical")
	}
	c.Set(uint(zz.Range("touch", 0, 63)))
	zz.Assert(zz.Iff(a.IsSet(q), aq), "short.copy.independent")
}

func ZZ_C17_Short_OnesCount() {
	a, w := zzShort("a", zz.Param("words", 3))
	sum := 0
	for _, x := range w {
		sum += bits.OnesCount64(x)
	}
	zz.Assert(a.OnesCount() == sum, "short.onescount.words")
	zz.Assert(zz.Implies(a.IsZero(), a.OnesCount() == 0), "short.onescount.zero")
}

func ZZ_C17_Short_Equal() {
	mw := zz.Param("words", 2)
	a, wa := zzShort("a", mw)
	b, wb := zzShort("b", mw)
	q := uint(zz.U64("q"))
	eq := a.Equal(b)
	zz.Assert(zz.Iff(eq, b.Equal(a)), "short.equal.symmetric")
	zz.Assert(zz.Implies(eq, zz.Iff(zzWordsBit(wa, q), zzWordsBit(wb, q))), "short.equal.sound")
	if !eq {
		diff := false
		n := len(wa)
		if len(wb) > n {
			n = len(wb)
		}
		for i := 0; i < n; i++ {
			var x, y uint64
			if i < len(wa) {
				x = wa[i]
			}
			if i < len(wb) {
				y = wb[i]
			}
			diff = zz.Or(diff, x != y)
		}
		zz.Assert(diff, "short.equal.complete")
	}
}

func ZZ_C17_Short_InjectExtract() {
	a, w := zzShort("a", zz.Param("words", 2))
	p := uint(zz.U64("p"))
	zz.Assume(p < uint(64*(len(w)+2)))
	q := uint(zz.U64("q"))
	zz.Assume(q < uint(64*(len(w)+3)))
	op := zz.Choice("op", 2)
	if op == 0 {
		v := zz.Bool("v")
		zz.Assume(q >= 1)
		aq, aq1 := zzWordsBit(w, q), zzWordsBit(w, q-1)
		a.Inject(p, v)
		want := zz.IteBool(q < p, aq, zz.IteBool(q == p, v, aq1))
		zz.Assert(zz.Iff(a.IsSet(q), want), "short.inject")
	} else {
		aq, aq1, ap := zzWordsBit(w, q), zzWordsBit(w, q+1), zzWordsBit(w, p)
		got := a.Extract(p)
		zz.Assert(zz.Iff(got, ap), "short.extract.result")
		want := zz.IteBool(q < p, aq, aq1)
		zz.Assert(zz.Iff(a.IsSet(q), want), "short.extract")
	}
}

// ---------------------------------------------------------------- Connected

func ZZ_C17_Conn_IsSet() {
	a := zzConn("a", zz.Param("runs", 3))
	q := uint(zz.U64("q"))
	zz.Assert(zz.Iff(a.IsSet(q), zzConnBit(a, q)), "conn.isset")
	zz.Assert(zz.Iff(a.IsZero(), len(a.entries) == 0), "conn.iszero")
	l := a.Len()
	zz.Assert(zz.Implies(l == 0, zz.Not(zzConnBit(a, q))), "conn.len.zero")
	zz.Assert(zz.Implies(zz.And(l > 0, q >= uint(l)), zz.Not(zzConnBit(a, q))), "conn.len.upper")
	if l > 0 {
		zz.Assert(a.IsSet(uint(l-1)), "conn.len.attained")
	}
}

func ZZ_C17_Conn_Point() {
	a := zzConn("a", zz.Param("runs", 3))
	p := uint(zz.U64("p"))
	zz.Assume(p < zzConnLimit)
	q := uint(zz.U64("q"))
	before := zzConnBit(a, q)
	was := zzConnBit(a, p)
	n0 := a.OnesCount()
	op := zz.Choice("op", 3)
	switch op {
	case 0:
		a.Set(p)
		zz.Assert(zzConnValid(a), "conn.set.invariant")
		zz.Assert(zz.Iff(zzConnBit(a, q), zz.Or(before, p == q)), "conn.set")
		zz.Assert(a.OnesCount() == n0+zz.IteInt(was, 0, 1), "conn.onescount.set")
	case 1:
		a.Unset(p)
		zz.Assert(zzConnValid(a), "conn.unset.invariant")
		zz.Assert(zz.Iff(zzConnBit(a, q), zz.And(before, p != q)), "conn.unset")
		zz.Assert(a.OnesCount() == n0-zz.IteInt(was, 1, 0), "conn.onescount.unset")
	case 2:
		a.Flip(p)
		zz.Assert(zzConnValid(a), "conn.flip.invariant")
		zz.Assert(zz.Iff(zzConnBit(a, q), zz.Not(zz.Iff(before, p == q))), "conn.flip")
	}
}

func zzConnBinary(op int) {
	mr := zz.Param("runs", 2)
	a := zzConn("a", mr)
	b := zzConn("b", zz.Param("runsb", mr))
	q := uint(zz.U64("q"))
	aq, bq := zzConnBit(a, q), zzConnBit(b, q)
	cp := zz.Choice("copy", 2)
	var r ConnectedBitmask
	if cp == 1 {
		switch op {
		case 0:
			r = a.OrCopy(b)
		case 1:
			r = a.AndCopy(b)
		case 2:
			r = a.XorCopy(b)
		default:
			r = a.SubCopy(b)
		}
		zz.Assert(zz.Iff(zzConnBit(a, q), aq), "conn.copy.receiver-unchanged")
	} else {
		switch op {
		case 0:
			a.Or(b)
		case 1:
			a.And(b)
		case 2:
			a.Xor(b)
		default:
			a.Sub(b)
		}
		r = a
	}
	zz.Assert(zz.Iff(zzConnBit(b, q), bq), "conn.operand-unchanged")
	zz.Assert(zz.Iff(zzConnBit(r, q), zzBinModel(op, aq, bq)), "conn."+zzOpNames[op])
	zz.Assert(zzConnValid(r), "conn."+zzOpNames[op]+".invariant")
	// the result is independent of the operands: changing it changes neither
	// (an in-place edit of the first run: visible through any shared storage)
	if len(r.entries) > 0 {
		r.Unset(r.entries[0].min)
	}
	zz.Assert(zz.Iff(zzConnBit(b, q), bq), "conn.result-independent-of-operand")
	if cp == 1 {
		zz.Assert(zz.Iff(zzConnBit(a, q), aq), "conn.result-independent-of-receiver")
	}
}

func ZZ_C17_Conn_Or()  { zzConnBinary(0) }
func ZZ_C17_Conn_And() { zzConnBinary(1) }
func ZZ_C17_Conn_Xor() { zzConnBinary(2) }
func ZZ_C17_Conn_Sub() { zzConnBinary(3) }

// Two steps, observable results only: whatever XorCopy returns must behave
// like the symmetric difference under a following Extract and under Equal.
func ZZ_C17_Conn_XorThenExtract() {
	mr := zz.Param("runs", 2)
	a := zzConn("a", mr)
	b := zzConn("b", mr)
	p := uint(zz.U64("p"))
	zz.Assume(p < zzConnLimit)
	q := uint(zz.U64("q"))
	zz.Assume(q < zzConnLimit)
	xp := zz.Not(zz.Iff(zzConnBit(a, p), zzConnBit(b, p)))
	xq := zz.Not(zz.Iff(zzConnBit(a, q), zzConnBit(b, q)))
	xq1 := zz.Not(zz.Iff(zzConnBit(a, q+1), zzConnBit(b, q+1)))
	x := a.XorCopy(b)
	// the same set built through Or/Sub: (a|b) - (a&b)
	y := a.OrCopy(b).SubCopy(a.AndCopy(b))
	zz.Assert(x.Equal(y), "conn.xor-then-equal")
	got := x.Extract(p)
	zz.Assert(zz.Iff(got, xp), "conn.xor-then-extract.result")
	zz.Assert(zz.Iff(x.IsSet(q), zz.IteBool(q < p, xq, xq1)), "conn.xor-then-extract")
}

func ZZ_C17_Conn_EqualCopy() {
	mr := zz.Param("runs", 2)
	a := zzConn("a", mr)
	b := zzConn("b", mr)
	q := uint(zz.U64("q"))
	eq := a.Equal(b)
	zz.Assert(zz.Iff(eq, b.Equal(a)), "conn.equal.symmetric")
	zz.Assert(zz.Implies(eq, zz.Iff(zzConnBit(a, q), zzConnBit(b, q))), "conn.equal.sound")
	if !eq {
		// canonical forms differ => one of the run boundaries (or its
		// neighbour) distinguishes the sets: finite witness set
		diff := false
		for _, bm := range []ConnectedBitmask{a, b} {
			for _, e := range bm.entries {
				for _, c := range []uint{e.min, e.max, e.max + 1} {
					diff = zz.Or(diff, zz.Not(zz.Iff(zzConnBit(a, c), zzConnBit(b, c))))
				}
				if len(bm.entries) > 0 {
					c := e.min - 1
					diff = zz.Or(diff, zz.And(e.min > 0, zz.Not(zz.Iff(zzConnBit(a, c), zzConnBit(b, c)))))
				}
			}
		}
		zz.Assert(diff, "conn.equal.complete")
	}
	c := a.Copy()
	zz.Assert(c.Equal(a), "conn.copy.equal")
	c.Set(uint(zz.Range("touch", 0, 1000)))
	zz.Assert(zz.Iff(zzConnBit(a, q), zzConnBit(a, q)), "conn.copy.independent")
}

func ZZ_C17_Conn_Inject() {
	a := zzConn("a", zz.Param("runs", 3))
	p := uint(zz.U64("p"))
	zz.Assume(p < zzConnLimit)
	v := zz.Bool("v")
	q := uint(zz.U64("q"))
	zz.Assume(q >= 1)
	aq, aq1 := zzConnBit(a, q), zzConnBit(a, q-1)
	a.Inject(p, v)
	want := zz.IteBool(q < p, aq, zz.IteBool(q == p, v, aq1))
	zz.Assert(zz.Iff(zzConnBit(a, q), want), "conn.inject")
	zz.Assert(zzConnValid(a), "conn.inject.invariant")
}

func ZZ_C17_Conn_Extract() {
	a := zzConn("a", zz.Param("runs", 3))
	p := uint(zz.U64("p"))
	zz.Assume(p < zzConnLimit)
	q := uint(zz.U64("q"))
	zz.Assume(q < zzConnLimit)
	aq, aq1, ap := zzConnBit(a, q), zzConnBit(a, q+1), zzConnBit(a, p)
	got := a.Extract(p)
	zz.Assert(zz.Iff(got, ap), "conn.extract.result")
	want := zz.IteBool(q < p, aq, aq1)
	zz.Assert(zz.Iff(zzConnBit(a, q), want), "conn.extract")
	zz.Assert(zzConnValid(a), "conn.extract.invariant")
}

// ---------------------------------------------------------------- agreement

// The three representations of the same set answer the observers alike.
func ZZ_C17_Agree() {
	n := 1 + zz.Choice("n", zz.Param("words", 2))
	w := zzWords("w", n)
	long := WrapAsLongBitmask(append([]uint64(nil), w...))
	var short ShortBitmask
	cur := &short
	for i := 0; i < n; i++ {
		cur.mask = w[i]
		if i+1 < n {
			cur.next = &ShortBitmask{}
			cur = cur.next
		}
	}
	q := uint(zz.U64("q"))
	zz.Assert(zz.Iff(long.IsSet(q), short.IsSet(q)), "agree.isset")
	zz.Assert(long.Len() == short.Len(), "agree.len")
	zz.Assert(long.OnesCount() == short.OnesCount(), "agree.onescount")
	zz.Assert(long.IsZero() == short.IsZero(), "agree.iszero")
}

// Connected against Long on a small universe: a run [lo,hi] set bit by bit.
func ZZ_C17_AgreeConn() {
	lo := uint(zz.Range("lo", 0, 100))
	hi := uint(zz.Range("hi", 0, 100))
	zz.Assume(lo <= hi)
	zz.Assume(hi-lo <= uint(zz.Param("runlen", 3)))
	var c ConnectedBitmask
	var l LongBitmask
	for i := lo; i <= hi; i++ {
		c.Set(i)
		l.Set(i)
	}
	q := uint(zz.U64("q"))
	zz.Assert(zz.Iff(c.IsSet(q), l.IsSet(q)), "agreeconn.isset")
	zz.Assert(c.Len() == l.Len(), "agreeconn.len")
	zz.Assert(c.OnesCount() == l.OnesCount(), "agreeconn.onescount")
	zz.Assert(len(c.entries) == 1, "agreeconn.canonical")
}
