//go:build verif

package bitmask

import zz "github.com/spq/pkappa2/internal/zzverif"

// ZZ_Smoke: LongBitmask.Set then IsSet agrees with the set model for one word pair.
func ZZ_Smoke() {
	w0, w1 := zz.U64("w0"), zz.U64("w1")
	p := uint(zz.Range("p", 0, 200))
	q := uint(zz.Range("q", 0, 200))
	bm := WrapAsLongBitmask([]uint64{w0, w1})
	before := bm.IsSet(q)
	bm.Set(p)
	after := bm.IsSet(q)
	zz.Cover("reached")
	zz.Observe("after", after)
	zz.Assert(zz.Iff(after, zz.Or(before, p == q)), "set-model")
}
