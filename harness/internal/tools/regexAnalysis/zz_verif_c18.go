//go:build verif

package regexanalysis

// C18: AcceptedLength / ConstantSuffix are safe (contain every match) and,
// for assertion-free expressions, exact. Oracle: a fork-free Thompson
// simulation of the same compiled program over a symbolic byte string.

import (
	"math"
	"unicode"

	zz "github.com/spq/pkappa2/internal/zzverif"
	"rsc.io/binaryregexp"
	"rsc.io/binaryregexp/syntax"
)

// ZZExprs is the bounded expression grammar (a stated bound of the check).
func ZZExprs(level int) []string {
	core := []string{
		"", "a", "ab", "a*", "a+", "a?", "a|b", "a|bc", "ab|cb", "(a|b)c", "a{2,3}", "(?:a|bb){2}",
		"a.*b", ".", ".*", "[ab]", "[^a]", "[a-c]x", "(?i)a", "(?i)ab", "(?s).", "a$", "^a", "^a$", "\\ba", "a\\b", "a\\B",
		"(a)", "(?P<n>a)b", "(a|b)*c", "(ab)*", "(a*)*", "(a|ab)(c|bcd)", "a*b|ab", "x(a|b)*", "(a+)+b", "a?b?c",
		"abc|bc", "a(b|c)d", "(?:a*b|ab)", "(a|b|c)d", "\\Aa\\z", "a\\n", "(?m)^a$", "(?m)a$b", "a|", "|a",
		"(?:ab)+c", "a{0,2}b", "[a-b]+c", "(?i)[a-b]c", "\\x00a", "a\\xffb", "(?:a|b)?c", "((a)|(b))c", "a**", "(?:)", "(?:a)",
		"ba*a", "x(?:ab)+ab", "0x0*0", "xa(?:ab)*b", "aa*", "(?:ab)*b", "a(?:ba)*ba", "(?:a|ba)*a",
		"(?i)k", "(?i)s", "[^\\n]a", "(?s:.)a", "..", "a.b", "a.?b", ".+b", "b.+", "(?:.*a)b", "a(?:b*)c", "(a|b)(a|b)",
	}
	// an alternation that is reached over several paths (after another
	// alternation, an optional part or a loop), the paths ending in different
	// or in equal literals: the suffix found behind the join must hold for
	// every path into it
	for _, x := range []string{"ab|cd", "ab|cb", "a|b", "ba|c", "foo|bar"} {
		for _, y := range []string{"a?", "b?", "o?", "(?:ab)?", "(?:|a)", "(?:|ca)", "(?:a|)", "(?:a|ba)", "b*"} {
			core = append(core, "(?:"+x+")"+y)
		}
	}
	core = append(core, "a?(?:b|cb)", "(?:ab)?(?:b|ab)", "a*(?:|a)", "(?:a|b)(?:a|b)(?:|a)", "(?:a|bb){3}", "(?:a|ba)?(?:a|b)?a")
	if level == 0 {
		return core
	}
	// thorough: core plus systematically generated combinations
	atoms := []string{"a", "b", ".", "[ab]", "[^a]", "\\n"}
	quants := []string{"", "*", "+", "?", "{2}", "{1,2}"}
	res := append([]string(nil), core...)
	for _, x := range atoms {
		for _, qx := range quants {
			for _, y := range atoms[:3] {
				for _, qy := range quants[:4] {
					res = append(res, x+qx+y+qy)
					res = append(res, "(?:"+x+qx+"|"+y+qy+")c")
				}
			}
		}
	}
	for _, anchor := range []string{"^", "$", "\\b", "\\B", "\\A", "\\z", "(?m)^", "(?m)$"} {
		for _, x := range atoms[:3] {
			res = append(res, anchor+x, x+anchor, x+anchor+"b", "(?:"+x+"|"+anchor+")b")
		}
	}
	return res
}

func zzCompile(e string) *syntax.Prog {
	r, err := syntax.Parse(e, syntax.Perl)
	if err != nil {
		return nil
	}
	p, err := syntax.Compile(r.Simplify())
	if err != nil {
		return nil
	}
	return p
}

func zzIsWord(c byte) bool {
	return zz.Or(zz.And(c >= 'a', c <= 'z'), zz.And(c >= 'A', c <= 'Z'), zz.And(c >= '0', c <= '9'), c == '_')
}

func zzEmptyOK(op syntax.EmptyOp, b []byte, k int) bool {
	n := len(b)
	ok := true
	if op&syntax.EmptyBeginLine != 0 {
		c := k == 0
		if k > 0 {
			c = b[k-1] == '\n'
		}
		ok = zz.And(ok, c)
	}
	if op&syntax.EmptyEndLine != 0 {
		c := k == n
		if k < n {
			c = b[k] == '\n'
		}
		ok = zz.And(ok, c)
	}
	if op&syntax.EmptyBeginText != 0 {
		ok = zz.And(ok, k == 0)
	}
	if op&syntax.EmptyEndText != 0 {
		ok = zz.And(ok, k == n)
	}
	if op&(syntax.EmptyWordBoundary|syntax.EmptyNoWordBoundary) != 0 {
		w1, w2 := false, false
		if k > 0 {
			w1 = zzIsWord(b[k-1])
		}
		if k < n {
			w2 = zzIsWord(b[k])
		}
		boundary := zz.Not(zz.Iff(w1, w2))
		if op&syntax.EmptyWordBoundary != 0 {
			ok = zz.And(ok, boundary)
		}
		if op&syntax.EmptyNoWordBoundary != 0 {
			ok = zz.And(ok, zz.Not(boundary))
		}
	}
	return ok
}

func zzMatchByte(i *syntax.Inst, c byte) bool {
	switch i.Op {
	case syntax.InstRuneAny:
		return true
	case syntax.InstRuneAnyNotNL:
		return c != '\n'
	case syntax.InstRune1, syntax.InstRune:
		if len(i.Rune) == 1 {
			r0 := i.Rune[0]
			m := false
			if r0 <= 0xFF {
				m = c == byte(r0)
			}
			if syntax.Flags(i.Arg)&syntax.FoldCase != 0 {
				for r1 := unicode.SimpleFold(r0); r1 != r0; r1 = unicode.SimpleFold(r1) {
					if r1 <= 0xFF {
						m = zz.Or(m, c == byte(r1))
					}
				}
			}
			return m
		}
		m := false
		for j := 0; j+1 < len(i.Rune); j += 2 {
			lo, hi := i.Rune[j], i.Rune[j+1]
			if lo > 0xFF {
				continue
			}
			if hi > 0xFF {
				hi = 0xFF
			}
			m = zz.Or(m, zz.And(c >= byte(lo), c <= byte(hi)))
		}
		return m
	}
	return false
}

func zzClosure(p *syntax.Prog, reach []bool, b []byte, k int) {
	for round := 0; round < len(p.Inst); round++ {
		for pc := range p.Inst {
			i := &p.Inst[pc]
			switch i.Op {
			case syntax.InstAlt, syntax.InstAltMatch:
				reach[i.Out] = zz.Or(reach[i.Out], reach[pc])
				reach[i.Arg] = zz.Or(reach[i.Arg], reach[pc])
			case syntax.InstNop, syntax.InstCapture:
				reach[i.Out] = zz.Or(reach[i.Out], reach[pc])
			case syntax.InstEmptyWidth:
				reach[i.Out] = zz.Or(reach[i.Out], zz.And(reach[pc], zzEmptyOK(syntax.EmptyOp(i.Arg), b, k)))
			}
		}
	}
}

// ZZSim reports whether the whole of b is accepted by p (anchored both ends).
func ZZSim(p *syntax.Prog, b []byte) bool {
	reach := make([]bool, len(p.Inst))
	reach[p.Start] = true
	for k := 0; ; k++ {
		zzClosure(p, reach, b, k)
		if k == len(b) {
			break
		}
		next := make([]bool, len(p.Inst))
		for pc := range p.Inst {
			i := &p.Inst[pc]
			switch i.Op {
			case syntax.InstRune, syntax.InstRune1, syntax.InstRuneAny, syntax.InstRuneAnyNotNL:
				next[i.Out] = zz.Or(next[i.Out], zz.And(reach[pc], zzMatchByte(i, b[k])))
			}
		}
		reach = next
	}
	acc := false
	for pc := range p.Inst {
		if p.Inst[pc].Op == syntax.InstMatch {
			acc = zz.Or(acc, reach[pc])
		}
	}
	return acc
}

func zzHasEmptyWidth(p *syntax.Prog) bool {
	for pc := range p.Inst {
		if p.Inst[pc].Op == syntax.InstEmptyWidth {
			return true
		}
	}
	return false
}

// zzAlphabet: one representative per class of bytes the program can tell apart.
func zzAlphabet(p *syntax.Prog) []byte {
	seen := map[byte]bool{}
	add := func(r rune) {
		if r >= 0 && r <= 0xFF {
			seen[byte(r)] = true
		}
	}
	for _, c := range []rune{'\n', 'a', 'A', '0', '_', ' ', 0, 0xFF, 'z', 'Z', '9', '`', '{', '@', '[', '/', ':'} {
		add(c)
	}
	for pc := range p.Inst {
		for _, r := range p.Inst[pc].Rune {
			add(r - 1)
			add(r)
			add(r + 1)
			for r1 := unicode.SimpleFold(r); r1 != r; r1 = unicode.SimpleFold(r1) {
				add(r1)
			}
		}
	}
	var res []byte
	for c := 0; c < 256; c++ {
		if seen[byte(c)] {
			res = append(res, byte(c))
		}
	}
	return res
}

// zzBrute: does the real matcher accept some string of exactly length n? (native replay only)
func zzBrute(e string, p *syntax.Prog, n int) bool {
	re := binaryregexp.MustCompile("^(?:" + e + ")$")
	// (?m) inside e would change ^ and $ of the wrapper; use \A \z
	re = binaryregexp.MustCompile("\\A(?:" + e + ")\\z")
	alpha := zzAlphabet(p)
	buf := make([]byte, n)
	var rec func(k int) bool
	rec = func(k int) bool {
		if k == n {
			return re.Match(buf)
		}
		for _, c := range alpha {
			buf[k] = c
			if rec(k + 1) {
				return true
			}
		}
		return false
	}
	return rec(0)
}

func zzHasSuffix(b, suffix []byte) bool {
	if len(suffix) > len(b) {
		return false
	}
	ok := true
	off := len(b) - len(suffix)
	for i := range suffix {
		ok = zz.And(ok, b[off+i] == suffix[i])
	}
	return ok
}

func ZZ_C18_Analysis() {
	exprs := ZZExprs(zz.Param("level", 0))
	e := exprs[zz.Choice("expr", len(exprs))]
	maxLen := zz.Param("maxlen", 5)
	p := zzCompile(e)
	if p == nil {
		return // not accepted by the payload filter syntax
	}
	al, err := AcceptedLength(e)
	zz.Assert(err == nil, "acceptedlength.noerr")
	suffix, err := ConstantSuffix(e)
	zz.Assert(err == nil, "constantsuffix.noerr")
	zz.Assert(al.MinLength <= al.MaxLength, "min<=max")

	n := zz.Choice("n", maxLen+1)
	b := zz.Bytes("b", n)
	acc := ZZSim(p, b)
	if zz.Replaying() {
		re := binaryregexp.MustCompile("\\A(?:" + e + ")\\z")
		zz.Assert(re.Match(b) == acc, "simulation-agrees-with-binaryregexp")
	}
	zz.Observe("acc", acc)
	zz.Observe("min", al.MinLength)
	zz.Observe("max", al.MaxLength)
	zz.Observe("suffix", string(suffix))
	// safety: every accepted string has a length within the bounds and ends with the suffix
	if uint(n) < al.MinLength || uint(n) > al.MaxLength {
		zz.Assert(zz.Not(acc), "length-contained")
	}
	zz.Assert(zz.Implies(acc, zzHasSuffix(b, suffix)), "suffix-of-every-match")
	zz.Cover("analysed")

	// exactness (assertion-free expressions): the finite bounds are attained
	if zzHasEmptyWidth(p) {
		return
	}
	if uint(n) == al.MinLength {
		if zz.Replaying() {
			zz.Assert(zzBrute(e, p, n), "min-attained")
		} else {
			zz.Exists(acc, "min-attained")
		}
	}
	if uint(n) == al.MaxLength {
		if zz.Replaying() {
			zz.Assert(zzBrute(e, p, n), "max-attained")
		} else {
			zz.Exists(acc, "max-attained")
		}
	}
	if al.MaxLength == math.MaxUint && al.MinLength != math.MaxUint && n == maxLen && n >= 1 {
		b2 := zz.Bytes("b2", n-1)
		acc2 := ZZSim(p, b2)
		if zz.Replaying() {
			zz.Assert(zzBrute(e, p, n) || zzBrute(e, p, n-1), "unbounded-has-long-match")
		} else {
			zz.Exists(zz.Or(acc, acc2), "unbounded-has-long-match")
		}
	}
}
