//go:build verif

package main

// C19: the upload and download handlers stay inside the capture directory
// and never overwrite. The two real handler closures of setupRouter are
// captured at registration and executed with a symbolic routed parameter.

import (
	"bytes"
	"errors"
	"io"
	"net/http"
	"net/http/httptest"
	"os"
	"path/filepath"
	"strings"

	"github.com/go-chi/chi/v5"
	"github.com/spq/pkappa2/internal/index/manager"
	zz "github.com/spq/pkappa2/internal/zzverif"
)

var zzHandlers map[string]http.HandlerFunc

const zzMux = "(*github.com/go-chi/chi/v5.Mux)."

// zzCaptureRoutes: engine only — route registration records the handler.
func zzCaptureRoutes() {
	zzHandlers = map[string]http.HandlerFunc{}
	reg := func(method string) func(m *chi.Mux, pattern string, h http.HandlerFunc) {
		return func(m *chi.Mux, pattern string, h http.HandlerFunc) { zzHandlers[method+" "+pattern] = h }
	}
	for _, m := range []string{"Get", "Post", "Put", "Delete", "Patch", "Head", "Options"} {
		zz.Override(zzMux+m, reg(strings.ToUpper(m)))
	}
	zz.Override(zzMux+"Use", func(m *chi.Mux, mw ...func(http.Handler) http.Handler) {})
	zz.Override(zzMux+"With", func(m *chi.Mux, mw ...func(http.Handler) http.Handler) chi.Router { return m })
	zz.Override(zzMux+"Mount", func(m *chi.Mux, pattern string, h http.Handler) {})
	zz.Override(zzMux+"Handle", func(m *chi.Mux, pattern string, h http.Handler) {})
	zz.Override(zzMux+"HandleFunc", func(m *chi.Mux, pattern string, h http.HandlerFunc) {})
	zz.Override(zzMux+"NotFound", func(m *chi.Mux, h http.HandlerFunc) {})
	zz.Override("github.com/go-chi/chi/v5.NewRouter", func() *chi.Mux { return &chi.Mux{} })
	zz.Override("github.com/go-chi/chi/v5/middleware.SetHeader", func(k, v string) func(http.Handler) http.Handler { return nil })
	zz.Override("github.com/go-chi/chi/v5/middleware.Profiler", func() http.Handler { return nil })
}

// zzRW is a recording ResponseWriter.
type zzRW struct {
	hdr    http.Header
	status int
	body   bytes.Buffer
}

func (w *zzRW) Header() http.Header { return w.hdr }
func (w *zzRW) Write(b []byte) (int, error) {
	if w.status == 0 {
		w.status = 200
	}
	return w.body.Write(b)
}
func (w *zzRW) WriteHeader(s int) {
	if w.status == 0 {
		w.status = s
	}
}

// zzInsideDir: the (cleaned) path lies below dir.
func zzInsideDir(path, dir string) bool {
	if len(path) <= len(dir)+1 {
		return false
	}
	return zz.And(path[:len(dir)] == dir, path[len(dir)] == '/')
}

// zzName: a routed file name: 1..maxfree arbitrary bytes followed by the
// extension the route pattern demands.
func zzName(ext string) string {
	if zz.Param("escapedsep", 0) == 1 {
		// the family  <2 arbitrary bytes> <escaped separator> <1 arbitrary byte> <ext>
		esc := []string{"%2F", "%2f", "%5C", "%252F", "%2E"}[zz.Choice("name.escape", 5)]
		return string(zz.Bytes("name.head", 2)) + esc + string(zz.Bytes("name.tail", 1)) + ext
	}
	n := 1 + zz.Choice("name.len", zz.Param("maxfree", 6))
	return string(zz.Bytes("name", n)) + ext
}

func ZZ_C19_Upload() {
	dir := filepath.Join(*baseDir, *pcapDir)
	ext := []string{".pcap", ".pcapng"}[zz.Choice("ext", 2)]
	exists := zz.Choice("already-exists", 2) == 1
	var opened []string
	var openFlags []int
	var imported [][]string
	var w *zzRW
	var name string
	serve := func(h http.HandlerFunc, r *http.Request) {
		w = &zzRW{hdr: http.Header{}}
		h(w, r)
	}
	if zz.Symbolic() {
		zzCaptureRoutes()
		name = zzName(ext)
		zz.Override("github.com/go-chi/chi/v5.URLParam", func(r *http.Request, key string) string { return name })
		zz.Override("github.com/spq/pkappa2/internal/tools.AssertFolderRWXPermissions", func(a, b string) {})
		zz.Override("os.OpenFile", func(p string, flag int, perm os.FileMode) (*os.File, error) {
			opened = append(opened, p)
			openFlags = append(openFlags, flag)
			if exists {
				return nil, errors.New("file exists")
			}
			return os.Create("/zzfs/upload.bin")
		})
		zz.Override("(*github.com/spq/pkappa2/internal/index/manager.Manager).ImportPcaps", func(m *manager.Manager, f []string) { imported = append(imported, f) })
		setupRouter(nil, nil, nil)
		h := zzHandlers["POST /upload/{filename:.+[.]pcap(ng)?}"]
		zz.Assert(h != nil, "upload.route-registered")
		serve(h, &http.Request{Method: "POST", Body: io.NopCloser(strings.NewReader("pcapdata"))})
	} else {
		// native: the same request through the real router and handler
		name = zzName(ext)
		zzNativeUpload(name, exists)
		return
	}
	zz.Cover("handler-returned")
	for i, p := range opened {
		zz.Assert(zzInsideDir(p, dir), "upload.path-stays-inside-capture-dir")
		zz.Assert(openFlags[i]&os.O_EXCL != 0 && openFlags[i]&os.O_CREATE != 0, "upload.create-is-exclusive")
		zz.Assert(openFlags[i]&os.O_TRUNC == 0, "upload.never-truncates")
	}
	zz.Assert(len(opened) <= 1, "upload.at-most-one-file")
	if exists {
		zz.Assert(w.status != 200, "upload.existing-name-is-an-error")
		zz.Assert(len(imported) == 0, "upload.existing-name-not-queued")
	}
	zz.Assert((w.status == 200) == (len(imported) == 1), "upload.queued-exactly-once-iff-ok")
	if len(imported) == 1 {
		zz.Assert(len(opened) == 1, "upload.queued-only-after-storing")
		if len(opened) == 1 && len(imported[0]) == 1 {
			zz.Assert(opened[0] == dir+"/"+imported[0][0], "upload.queues-the-stored-name")
		}
	}
}

// zzNativeUpload replays one concrete upload against the real router.
func zzNativeUpload(name string, exists bool) {
	tmp := zz.TempDir()
	*baseDir, *pcapDir = tmp, "pcaps"
	dir := filepath.Join(tmp, "pcaps")
	os.MkdirAll(dir, 0o755)
	for _, d := range []string{"idx", "snap", "state", "conv"} {
		os.MkdirAll(filepath.Join(tmp, d), 0o755)
	}
	mgr, err := manager.New(dir, filepath.Join(tmp, "idx"), filepath.Join(tmp, "snap"), filepath.Join(tmp, "state"), filepath.Join(tmp, "conv"), "")
	if err != nil {
		panic(err)
	}
	defer mgr.Close()
	// everything outside the capture directory before the request
	before := zzTreeOutside(tmp, dir)
	clean := filepath.Join(dir, filepath.Base(name))
	if exists && filepath.Base(name) == name {
		os.WriteFile(clean, []byte("old"), 0o644)
	}
	srv := httptest.NewServer(setupRouter(mgr, nil, nil))
	defer srv.Close()
	// the routed parameter reaches the handler as written in the escaped path
	req, _ := http.NewRequest("POST", srv.URL+"/upload/x", strings.NewReader("pcapdata"))
	req.URL.Opaque = "/upload/" + name
	resp, err := http.DefaultClient.Do(req)
	status := 0
	if err == nil {
		status = resp.StatusCode
		resp.Body.Close()
	}
	after := zzTreeOutside(tmp, dir)
	zz.Assert(before == after, "upload.path-stays-inside-capture-dir")
	if exists && filepath.Base(name) == name {
		b, _ := os.ReadFile(clean)
		zz.Assert(string(b) == "old", "upload.never-truncates")
		zz.Assert(status != 200, "upload.existing-name-is-an-error")
	}
}

func zzTreeOutside(root, except string) string {
	var sb strings.Builder
	filepath.Walk(root, func(p string, info os.FileInfo, err error) error {
		if err != nil || strings.HasPrefix(p, except) || strings.Contains(p, "/state") {
			return nil
		}
		sb.WriteString(p + "\n")
		return nil
	})
	// and the parent of the root (dot-dot escapes)
	ents, _ := os.ReadDir(filepath.Dir(root))
	for _, e := range ents {
		if strings.HasSuffix(e.Name(), ".pcap") || strings.HasSuffix(e.Name(), ".pcapng") {
			sb.WriteString("PARENT:" + e.Name() + "\n")
		}
	}
	return sb.String()
}

func ZZ_C19_Download() {
	dir := filepath.Join(*baseDir, *pcapDir)
	var served []string
	var w *zzRW
	if !zz.Symbolic() {
		return // the native side of the download handler is http.ServeFile itself
	}
	zzCaptureRoutes()
	name := zzName(".pcap")
	// the route pattern [^/\\]+[.]pcap admits no separator
	for i := 0; i < len(name); i++ {
		zz.Assume(zz.And(name[i] != '/', name[i] != '\\'))
	}
	zz.Override("github.com/go-chi/chi/v5.URLParam", func(r *http.Request, key string) string { return name })
	zz.Override("net/http.ServeFile", func(w http.ResponseWriter, r *http.Request, p string) { served = append(served, p) })
	setupRouter(nil, nil, nil)
	h := zzHandlers[`GET /api/download/pcap/{file:[^/\\]+[.]pcap}`]
	zz.Assert(h != nil, "download.route-registered")
	w = &zzRW{hdr: http.Header{}}
	h(w, &http.Request{Method: "GET"})
	for _, p := range served {
		zz.Assert(zzInsideDir(p, dir), "download.path-stays-inside-capture-dir")
	}
	zz.Assert(len(served) <= 1, "download.at-most-one-file")
}

// ---------------------------------------------------------------- overlapping uploads

// zzGatedBody: a request body whose first Read reports that the handler has
// started to receive and then waits until it is allowed to go on.
type zzGatedBody struct {
	data    string
	entered chan struct{}
	gate    chan struct{}
	started bool
	done    bool
}

func (b *zzGatedBody) Read(p []byte) (int, error) {
	if !b.started {
		b.started = true
		close(b.entered)
		<-b.gate
	}
	if b.done {
		return 0, io.EOF
	}
	b.done = true
	return copy(p, b.data), nil
}
func (b *zzGatedBody) Close() error { return nil }

// ZZ_C19_Overlap: a second upload of the same name arrives while the first is
// still receiving its body: one of them fails, the stored capture is the
// acknowledged one's, the name is queued once.
func ZZ_C19_Overlap() {
	zz.DeadlockIsViolation()
	name := "x" + []string{".pcap", ".pcapng"}[zz.Choice("ext", 2)]
	var handler http.Handler
	imported := 0
	var dir string
	if zz.Symbolic() {
		dir = filepath.Join(*baseDir, *pcapDir)
		zzCaptureRoutes()
		zz.Override("github.com/go-chi/chi/v5.URLParam", func(r *http.Request, key string) string { return name })
		zz.Override("github.com/spq/pkappa2/internal/tools.AssertFolderRWXPermissions", func(a, b string) {})
		zz.Override("(*github.com/spq/pkappa2/internal/index/manager.Manager).ImportPcaps", func(m *manager.Manager, f []string) { imported += len(f) })
		setupRouter(nil, nil, nil)
		h := zzHandlers["POST /upload/{filename:.+[.]pcap(ng)?}"]
		zz.Assert(h != nil, "upload.route-registered")
		handler = h
	} else {
		tmp := zz.TempDir()
		*baseDir, *pcapDir = tmp, "pcaps"
		dir = filepath.Join(tmp, "pcaps")
		for _, d := range []string{"pcaps", "idx", "snap", "state", "conv"} {
			os.MkdirAll(filepath.Join(tmp, d), 0o755)
		}
		mgr, err := manager.New(dir, filepath.Join(tmp, "idx"), filepath.Join(tmp, "snap"), filepath.Join(tmp, "state"), filepath.Join(tmp, "conv"), "")
		if err != nil {
			panic(err)
		}
		defer mgr.Close()
		handler = setupRouter(mgr, nil, nil)
	}
	bodyA := &zzGatedBody{data: "AAAA", entered: make(chan struct{}), gate: make(chan struct{})}
	wA := &zzRW{hdr: http.Header{}}
	doneA := make(chan struct{})
	go func() {
		reqA := zzUploadRequest(name, bodyA)
		handler.ServeHTTP(wA, reqA)
		close(doneA)
	}()
	<-bodyA.entered // A has created its file and is receiving
	wB := &zzRW{hdr: http.Header{}}
	reqB := zzUploadRequest(name, io.NopCloser(strings.NewReader("BB")))
	handler.ServeHTTP(wB, reqB)
	close(bodyA.gate)
	<-doneA
	okA, okB := wA.status == 200 || wA.status == 0, wB.status == 200 || wB.status == 0
	zz.Assert(!(okA && okB), "overlap.not-both-acknowledged")
	stored, err := os.ReadFile(filepath.Join(dir, name))
	if okA || okB {
		zz.Assert(err == nil, "overlap.acknowledged-capture-is-stored")
		want := "AAAA"
		if okB && !okA {
			want = "BB"
		}
		if okA && okB {
			want = "BB" // B was acknowledged first: its capture must not be replaced
		}
		zz.Assert(string(stored) == want, "overlap.stored-capture-is-the-acknowledged-one")
	}
	if zz.Symbolic() {
		n := 0
		if okA {
			n++
		}
		if okB {
			n++
		}
		zz.Assert(imported == n && n <= 1, "overlap.queued-exactly-once")
	}
}

func zzUploadRequest(name string, body io.ReadCloser) *http.Request {
	if zz.Symbolic() {
		return &http.Request{Method: "POST", Body: body} // the routed parameter comes from the URLParam stub
	}
	r, err := http.NewRequest("POST", "/upload/"+name, nil)
	if err != nil {
		panic(err)
	}
	r.Body = body
	return r
}
