#!/bin/bash
# Runs every seeded change against the check recorded in its meta.json
# (caught_by) and prints one line per seed. Sequential; about an hour.
cd /verif
for d in seeded/*/; do
  id=$(basename $d)
  p=$(python3 -c "import json;print(json.load(open('$d/meta.json')).get('caught_by') or '')")
  [ -z "$p" ] && { echo "$id: no check recorded"; continue; }
  tools/mutest.sh $id $p | head -1 | cut -c1-200
done
