#!/usr/bin/env python3
import json
setup="cd /verif/engine && PATH=/opt/veriftools/go1.26.8/bin:$PATH GOFLAGS=-mod=mod GOPROXY=off GOSUMDB=off GOTOOLCHAIN=local go build -o /verif/bin/verif ./cmd/verif"
TB="Trusted: engine operator semantics and stubs (validated on every run by native replay of solver models: violations and sampled passing paths with observation comparison), go/ssa lowering (gc evaluation order of multi-value returns modelled), z3 4.8.12 / cvc5 1.0 (fallback to the other and z3 5.1.0 on unknown). "
claimed={
 "C17":("Bounded symbolic model check of every exported bitmask operation: one inductive step per operation from an arbitrary valid state (symbolic 64-bit words incl. stale spare capacity / run bounds), oracle = integer-set model read pointwise through a fresh symbolic bit, result independence from operands after mutation; unsat on every path = holds for all values within the stated sizes. Sequences of any length follow from step + representation invariant.",
        TB+"Bounds: <=3 (thorough 4) words, <=2 runs per operand (quick 2x1), run bounds < 2^62; math/bits encoded as terms.","symbolic execution of go/ssa + SMT (QF_BV), inductive step per operation","DESIGN.md 5/C17"),
 "C18":("For every expression of an enumerated bounded grammar the real AcceptedLength/ConstantSuffix run on the real compiled program; every byte string up to maxlen is symbolic and a fork-free Thompson simulation of the same program is the oracle: containment of lengths and suffix are unsat-checked, attainment of finite bounds is a sat obligation confirmed natively by enumeration.",
        TB+"The simulation is cross-checked against rsc.io/binaryregexp on the solver's models natively. Expressions: enumerated list (70 quick / ~1200 thorough); strings <= 5 (6) bytes.","symbolic execution + SMT over symbolic strings, enumerated programs","DESIGN.md 5/C18"),
 "C03":("The real normaliser (QueryConditions, invert, And/Or/then, clean*, Clean) runs on directly constructed parse trees for 20 expression shapes over every leaf kind; numeric literals, durations, address bytes and the whole stream (attributes, tag truth values, payload events) are symbolic; two independent reference evaluators (expression as written with cursor-set THEN semantics vs. normal form by the documented meaning of each condition kind) must agree for all values: one VC per path.",
        TB+"Grammar stage (participle) is outside: parse trees are built directly, natively the real value parsers parse the rendered text. Main query only (no sub-query variables).","symbolic execution + SMT equivalence of two evaluators","DESIGN.md 5/C03"),
 "C14":("Post-grammar stage only: the normalisation pipeline never panics and never exceeds loop bounds derived from the code (unwinding assertion; a BOUND path is replayed natively under a watchdog and reported only if still running) for arithmetic number filters with repeated variables and odd-but-well-formed values; independence from map iteration order by making the order of every small map a symbolic choice.",
        TB+"NOT claimed: lexing/grammar (reflection-driven participle) and hence 'every byte string'; promptness only as instruction counts.","symbolic execution with unwinding assertions + native watchdog replay","DESIGN.md 5/C14"),
}
na={
 "C05":"capture reading is cgo libpcap + third-party reassembly state machines over whole packets; no arithmetic content for a solver, FFI boundary (DESIGN.md 6)",
 "C08":"same import pipeline as C05 (Builder.FromPcap around cgo readPackets); snapshots need 100000 packets (DESIGN.md 6)",
 "C20":"data-race freedom is a happens-before property of executions, not an assertion an SMT solver decides over a sequentialised interpretation (DESIGN.md 6)",
}
import os,sys
extra=json.load(open('/verif/tools/manifest_extra.json')) if os.path.exists('/verif/tools/manifest_extra.json') else {}
for k,v in extra.get('claimed',{}).items(): claimed[k]=tuple(v)
for k,v in extra.get('na',{}).items(): na[k]=v
allp=[json.loads(l)['id'] for l in open('/verif/properties.jsonl')]
checks=[]
for pid in allp:
    if pid in claimed:
        text,note,tech,ref=claimed[pid]
        checks.append({"property_id":pid,"quick_cmd":f"bin/verif check {pid} --tier quick","thorough_cmd":f"bin/verif check {pid} --tier thorough",
            "evidence_file":f"/verif/evidence/{pid}.json","replay_cmd_template":"bin/verif replay {path}","engine":"sx",
            "level_claimed":{"category":"model_checking","text":text,"design_ref":ref},"level_note":note,"technique":tech})
nal=[]
for pid in allp:
    if pid in claimed: continue
    nal.append({"property_id":pid,"reason":na.get(pid,"check not built yet in this session (planned, see DESIGN.md section 5); not claimed")})
m={"version":1,"setup_cmd":setup,
 "hooks":{"guard":"verif","enable":"harness files (//go:build verif) are injected with go/packages Overlay (engine) and go test -overlay -tags verif (native replay); nothing is written to /repo","baseline_off_cmd":"cd /repo && go test -mod=mod -json -vet=off -count=1 -timeout 25m ./...","source_commits":[],"add_only":True},
 "engines":[{"name":"sx","path":"/verif/engine","serves_properties":sorted(claimed),"kind_free_text":"symbolic executor over go/ssa of the real code (forked from x/tools/go/ssa/interp), path conditions and assertion VCs decided by z3/cvc5 over bit-vectors, counterexamples replayed against the natively compiled code"}],
 "checks":checks,"not_applicable":nal,
 "notes":"All checks: exit 0 pass, 1 natively reproduced violation (VIOLATION line), 2 inconclusive (never printed as violation). Genuine defects found and repaired are listed in known_findings.jsonl (status fixed) with the fix: commits in /repo."}
json.dump(m,open('/verif/MANIFEST.json','w'),indent=1)
print("claimed",sorted(claimed))
