#!/bin/bash
# Confirms every seeded change in a scratch worktree: existing tests pass with it,
# the demonstration fails with it and passes without it. Writes meta.json.
set -u
WT=/tmp/wtv-seeded
git -C /repo worktree remove --force $WT 2>/dev/null
git -C /repo worktree add -q --detach $WT HEAD || exit 1
mkdir -p $WT/web/dist && echo '<html></html>' > $WT/web/dist/index.html
pkgdir() {
  case "$1" in
    bitmask|bitmask_test) echo internal/tools/bitmask;; index|index_test) echo internal/index;; manager|manager_test) echo internal/index/manager;;
    converters|converters_test) echo internal/index/converters;; query|query_test) echo internal/query;;
    regexanalysis|regexanalysis_test) echo internal/tools/regexAnalysis;; main) echo cmd/pkappa2;; builder|builder_test) echo internal/index/builder;; *) echo "";;
  esac
}
for d in /verif/seeded/${ONLY:-*}/; do
  id=$(basename $d)
  [ -f $d/patch.diff ] || continue
  cd $WT && git checkout -q -- . && git clean -fdq -e web/dist >/dev/null
  prop=${id%%-*}
  applies=yes
  git apply --check $d/patch.diff 2>/dev/null || { git apply --3way --check $d/patch.diff 2>/dev/null || applies=no; }
  demos=$(ls $d | grep '_test.go$')
  res_without=""; res_with=""; res_existing=""
  if [ "$applies" = yes ] && [ -n "$demos" ]; then
    declare -A targets=()
    for f in $demos; do
      pk=$(grep -m1 '^package ' $d/$f | awk '{print $2}'); t=$(pkgdir $pk)
      # manager demos of other packages: notes decide
      if grep -q "internal/index/manager" $d/notes.md 2>/dev/null && [ "$pk" = manager ]; then t=internal/index/manager; fi
      [ -n "$t" ] && cp $d/$f $WT/$t/zzdemo_$f && targets[$t]=1
    done
    tlist="${!targets[@]}"
    pk_args=""; for t in $tlist; do pk_args="$pk_args ./$t"; done
    runs=$(grep -ho 'func Test[A-Za-z0-9_]*' $d/*_test.go | sed 's/func //' | paste -sd'|')
    res_without=$( (go test -mod=mod -vet=off -count=1 -run "^($runs)\$" $pk_args >/tmp/vs.out 2>&1 && echo pass) || echo fail)
    git apply $d/patch.diff 2>/dev/null || { git apply --3way $d/patch.diff >/dev/null 2>&1; git reset -q; }
    res_with=$( (go test -mod=mod -vet=off -count=1 -run "^($runs)\$" $pk_args >/tmp/vs2.out 2>&1 && echo pass) || echo fail)
    rm -f $WT/*/*/zzdemo_* $WT/*/*/*/zzdemo_* $WT/*/zzdemo_* 2>/dev/null
    res_existing=$( (go build ./internal/... ./cmd/... >/tmp/vs3.out 2>&1 && go test -mod=mod -vet=off -count=1 ./internal/... ./cmd/... >>/tmp/vs3.out 2>&1 && echo pass) || echo fail)
  fi
  needs=$(grep -i -m1 -A3 "manifest" $d/notes.md 2>/dev/null | tr '\n' ' ' | cut -c1-400)
  python3 - "$id" "$prop" "$applies" "$res_without" "$res_with" "$res_existing" "$needs" <<'PY'
import json,sys
id,prop,applies,wo,wi,ex,needs=sys.argv[1:8]
meta={"id":id,"breaks_property":prop,"patch_applies_on_current_head":applies=="yes",
 "demo_without_patch":wo,"demo_with_patch":wi,"existing_tests_with_patch":ex,
 "confirmed": wo=="pass" and wi=="fail" and ex=="pass",
 "needs_to_manifest":needs,"source":"independent sub-agent given only the property text and a scratch worktree (see notes.md)",
 "commands":"scratch worktree of /repo HEAD: go test -run <demo tests> (without / with patch); go build ./internal/... ./cmd/... && go test ./internal/... ./cmd/... (with patch, demo removed)"}
try:
    old=json.load(open(f"/verif/seeded/{id}/meta.json"))
    for k in ("caught_by","catch_note"):
        if k in old: meta[k]=old[k]
except Exception: pass
json.dump(meta,open(f"/verif/seeded/{id}/meta.json","w"),indent=1)
print(id,applies,wo,wi,ex)
PY
done
cd /verif; git -C /repo worktree remove --force $WT
