#!/bin/bash
# usage: tools/mutest.sh <seeded-dir> <property> [extra check args]
# applies seeded/<dir>/patch.diff to /repo, runs the quick check, reverts.
d=$1; shift; p=$1; shift
cd /repo || exit 2
if ! git apply --check /verif/seeded/$d/patch.diff 2>/dev/null; then
  if ! git apply --3way /verif/seeded/$d/patch.diff 2>/dev/null; then echo "PATCH-DOES-NOT-APPLY $d"; git checkout -- . ; exit 3; fi
  git reset -q
else
  git apply /verif/seeded/$d/patch.diff
fi
cd /verif
timeout 3000 bin/verif check $p --tier quick "$@" > /tmp/mutest-$d-$p.log 2>&1
rc=$?
git -C /repo checkout -- .
echo "$d $p exit=$rc $(grep -c '^VIOLATION' /tmp/mutest-$d-$p.log) violation lines; $(grep '^VIOLATION' -A1 /tmp/mutest-$d-$p.log | grep harness | head -3 | cut -c1-160)"
grep -h "INCONCLUSIVE" /tmp/mutest-$d-$p.log | head -3 | cut -c1-300
