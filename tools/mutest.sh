#!/bin/bash
# usage: tools/mutest.sh <seeded-dir> <property> [extra check args]
# Tries a seeded change: a scratch worktree of /repo HEAD gets
# seeded/<dir>/patch.diff, the property's quick check runs against it
# (VERIF_REPO), the worktree is removed. /repo itself is never touched and the
# committed evidence is not overwritten (scratch runs write to /tmp).
d=$1; shift; p=$1; shift
wt=/tmp/mutwt-$d-$$
git -C /repo worktree add -q --detach $wt HEAD || exit 2
cleanup() { git -C /repo worktree remove --force $wt 2>/dev/null; }
trap cleanup EXIT
cd $wt
mkdir -p web/dist; [ -f web/dist/index.html ] || cp -r /repo/web/dist/. web/dist/ 2>/dev/null
if ! git apply --check /verif/seeded/$d/patch.diff 2>/dev/null; then
  if ! git apply --3way /verif/seeded/$d/patch.diff 2>/dev/null; then echo "PATCH-DOES-NOT-APPLY $d"; exit 3; fi
else
  git apply /verif/seeded/$d/patch.diff
fi
cd /verif
VERIF_REPO=$wt timeout 3000 bin/verif check $p --tier quick "$@" > /tmp/mutest-$d-$p.log 2>&1
rc=$?
echo "$d $p exit=$rc $(grep -c '^VIOLATION' /tmp/mutest-$d-$p.log) violation lines; $(grep '^VIOLATION' -A1 /tmp/mutest-$d-$p.log | grep harness | head -3 | cut -c1-160)"
grep -h "INCONCLUSIVE" /tmp/mutest-$d-$p.log | head -3 | cut -c1-300
