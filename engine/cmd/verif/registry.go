package main

var registry = map[string]CheckSpec{}

func tier(params map[string]int) *Tier { return &Tier{Params: params} }

func init() {
	registry["SMOKE"] = CheckSpec{Property: "SMOKE", Harnesses: []HarnessSpec{
		{Pkg: "internal/tools/bitmask", Func: "ZZ_Smoke", Quick: tier(nil)},
	}}

	bm := "internal/tools/bitmask"
	w2, w3 := map[string]int{"words": 2}, map[string]int{"words": 3}
	r2, r3 := map[string]int{"runs": 2}, map[string]int{"runs": 3}
	r21 := map[string]int{"runs": 2, "runsb": 1}
	registry["C17"] = CheckSpec{Property: "C17",
		Harnesses: []HarnessSpec{
			{Pkg: bm, Func: "ZZ_C17_Long_IsSet", Quick: tier(w3), Thorough: tier(map[string]int{"words": 4}), Bounds: "0..words symbolic 64-bit words, fresh 64-bit q"},
			{Pkg: bm, Func: "ZZ_C17_Long_Point", Quick: tier(w2), Thorough: tier(w3), Bounds: "Set/Unset/Flip(p), p < 64*(words+2)"},
			{Pkg: bm, Func: "ZZ_C17_Long_Binary", Quick: tier(w2), Thorough: tier(w3), Bounds: "Or/And/Xor/Sub and Copy variants, operands 0..words words each"},
			{Pkg: bm, Func: "ZZ_C17_Long_Observers", Quick: tier(w2), Thorough: tier(w3)},
			{Pkg: bm, Func: "ZZ_C17_Long_Next", Quick: tier(w2), Thorough: tier(w3)},
			{Pkg: bm, Func: "ZZ_C17_Long_OnesCount", Quick: tier(w3), Thorough: tier(map[string]int{"words": 4})},
			{Pkg: bm, Func: "ZZ_C17_OnesCount_Bit", Quick: tier(nil), Bounds: "one word, positions 0 and 63"},
			{Pkg: bm, Func: "ZZ_C17_Long_Equal", Quick: tier(w2), Thorough: tier(w3)},
			{Pkg: bm, Func: "ZZ_C17_Long_Inject", Quick: tier(w2), Thorough: tier(w3), Bounds: "Inject(p,v) recursion through all words"},
			{Pkg: bm, Func: "ZZ_C17_Short_IsSet", Quick: tier(w3), Thorough: tier(map[string]int{"words": 4})},
			{Pkg: bm, Func: "ZZ_C17_Short_Point", Quick: tier(w3), Thorough: tier(map[string]int{"words": 4})},
			{Pkg: bm, Func: "ZZ_C17_Short_Binary", Quick: tier(w2), Thorough: tier(w3)},
			{Pkg: bm, Func: "ZZ_C17_Short_Observers", Quick: tier(w3), Thorough: tier(map[string]int{"words": 4})},
			{Pkg: bm, Func: "ZZ_C17_Short_OnesCount", Quick: tier(w3), Thorough: tier(map[string]int{"words": 4})},
			{Pkg: bm, Func: "ZZ_C17_Short_Equal", Quick: tier(w3), Thorough: tier(map[string]int{"words": 4})},
			{Pkg: bm, Func: "ZZ_C17_Short_InjectExtract", Quick: tier(w3), Thorough: tier(map[string]int{"words": 4})},
			{Pkg: bm, Func: "ZZ_C17_Conn_IsSet", Solver: "cvc5", Quick: tier(r3), Thorough: tier(map[string]int{"runs": 4})},
			{Pkg: bm, Func: "ZZ_C17_Conn_Point", Solver: "cvc5", Quick: tier(r2), Thorough: tier(r3), Bounds: "0..runs valid runs (sorted, disjoint, not touching, < 2^62), Set/Unset/Flip"},
			{Pkg: bm, Func: "ZZ_C17_Conn_Or", Solver: "cvc5", Quick: tier(r21), Thorough: tier(r2)},
			{Pkg: bm, Func: "ZZ_C17_Conn_And", Solver: "cvc5", Quick: tier(r21), Thorough: tier(r2)},
			{Pkg: bm, Func: "ZZ_C17_Conn_Xor", Solver: "cvc5", Quick: tier(r21), Thorough: tier(r2)},
			{Pkg: bm, Func: "ZZ_C17_Conn_XorThenExtract", Solver: "cvc5", Quick: tier(map[string]int{"runs": 1}), Thorough: tier(map[string]int{"runs": 1}), Bounds: "two steps: XorCopy then Equal/Extract, observable results only"},
			{Pkg: bm, Func: "ZZ_C17_Conn_Sub", Solver: "cvc5", Quick: tier(r21), Thorough: tier(r2)},
			{Pkg: bm, Func: "ZZ_C17_Conn_EqualCopy", Solver: "cvc5", Quick: tier(r2), Thorough: tier(r3)},
			{Pkg: bm, Func: "ZZ_C17_Conn_Inject", Solver: "cvc5", Quick: tier(r2), Thorough: tier(r3)},
			{Pkg: bm, Func: "ZZ_C17_Conn_Extract", Solver: "cvc5", Quick: tier(r2), Thorough: tier(r3)},
			{Pkg: bm, Func: "ZZ_C17_Agree", Quick: tier(w2), Thorough: tier(w3)},
			{Pkg: bm, Func: "ZZ_C17_AgreeConn", Quick: tier(map[string]int{"runlen": 3}), Thorough: tier(map[string]int{"runlen": 6})},
		},
		Assumptions: []string{
			"ConnectedBitmask pre-states satisfy the canonical form: runs sorted, min<=max, disjoint and not touching (max+1 < next.min), values < 2^62",
			"bit positions passed to Set/Flip/Inject of Long/Short masks are < 64*(words+2) (larger positions only allocate more zero words)",
			"math/bits population count, leading and trailing zero counts are encoded as bit-vector terms (trusted)",
		},
		Outside: []string{"more words/runs than the stated parameter", "run bounds >= 2^62 (overflow of max+1)"},
	}

	ra := "internal/tools/regexAnalysis"
	registry["C18"] = CheckSpec{Property: "C18",
		Harnesses: []HarnessSpec{
			{Pkg: ra, Func: "ZZ_C18_Analysis", Quick: &Tier{Params: map[string]int{"level": 0, "maxlen": 5}, Samples: 60},
				Thorough: &Tier{Params: map[string]int{"level": 1, "maxlen": 6}, Samples: 300},
				Bounds: "expressions of the bounded grammar ZZExprs(level) (enumerated), every byte string of length 0..maxlen symbolic"},
		},
		Assumptions: []string{
			"oracle = fork-free Thompson simulation (harness, ~120 lines) of the same compiled syntax.Prog; validated on every run against rsc.io/binaryregexp on the solver's models (native replay, label simulation-agrees-with-binaryregexp)",
			"exactness (min/max attained) is asserted only for expressions without empty-width assertions (the analysis walks assertions as no-ops by design)",
			"multi-value returns are evaluated in gc's order (calls first, variable reads last), see engine getLate",
		},
		Outside: []string{"strings longer than maxlen", "expressions outside the enumerated grammar", "counted repetition above 3", "runes above 0xFF"},
	}

	qp := "internal/query"
	registry["C03"] = CheckSpec{Property: "C03",
		Harnesses: []HarnessSpec{
			{Pkg: qp, Func: "ZZ_C03_Data", Quick: tier(map[string]int{"events": 3}), Thorough: tier(map[string]int{"events": 4}),
				Bounds: "20 expression shapes (NOT/AND/OR/THEN, depth<=3) over data/tag leaves; payload of `events` symbolic (direction, byte) events; tag truth values symbolic"},
			{Pkg: qp, Func: "ZZ_C03_Number", Solver: "cvc5", Quick: tier(map[string]int{"numfams": 1, "numshapes": 8}), Thorough: tier(map[string]int{"numfams": 2, "numshapes": 8}),
				Bounds: "shapes over id/port/bytes leaves (single, range, open ranges, list) with symbolic 20-bit literals; stream attributes symbolic"},
			{Pkg: qp, Func: "ZZ_C03_Arith", Solver: "cvc5", Quick: tier(map[string]int{"arithparts": 2, "arithshapes": 2}), Thorough: tier(map[string]int{"arithparts": 3, "arithshapes": 2}),
				Bounds: "number filters key:<sum>, key:<sum>:, key::<sum> over cport/cbytes/sbytes whose sum has 1..arithparts signed parts (one symbolic literal 0..63 per part or one of the stream's own attributes); plain, negated, two filters together; stream attributes symbolic"},
			{Pkg: qp, Func: "ZZ_C03_Mixed", Solver: "cvc5", Quick: tier(map[string]int{"mixfams": 6, "mixshapes": 6, "events": 2, "numforms": 2, "hostkeys": 1, "hostmasks": 2, "timeforms": 1}), Thorough: tier(map[string]int{"mixfams": 9, "mixshapes": 8, "events": 2, "numforms": 3, "hostkeys": 3, "hostmasks": 3}),
				Bounds: "one leaf of each kind (number, tag, data, host/mask, ftime/ltime/time with relative durations) against each other"},
			{Pkg: qp, Func: "ZZ_C03_Time", Solver: "cvc5", Quick: tier(map[string]int{"timeshapes": 4, "timekeys": 2}), Thorough: tier(map[string]int{"timeshapes": 8, "timekeys": 3}),
				Bounds: "shapes over ftime/ltime/time leaves: relative bounds with symbolic 44-bit nanosecond durations, absolute bounds from two concrete sample dates"},
			{Pkg: qp, Func: "ZZ_C03_Proto", Solver: "cvc5", Quick: tier(map[string]int{"protoshapes": 4}), Thorough: tier(map[string]int{"protoshapes": 8})},
		},
		Assumptions: []string{
			"grammar stage (participle) replaced by directly constructed parse trees; natively the real value parsers parse the rendered text of the same instance",
			"evalAST: documented meaning of each filter (README / Home.vue help): lists = OR, ranges = two bounds, port/bytes/host = client or server, time:L:U = some packet in range, THEN = AND with sequential data matching (cursor-set semantics)",
			"evalCS: each condition kind by the comment that defines it in conditions.go",
			"data atoms are distinct single-byte literals; every payload event is its own chunk",
		},
		Outside: []string{"sub-query variables", "regular expressions other than literals (C04/C18)", "absolute timestamps", "sort/limit/group terms", "expressions deeper than the listed shapes"},
	}

	registry["C14"] = CheckSpec{Property: "C14",
		Harnesses: []HarnessSpec{
			{Pkg: qp, Func: "ZZ_C14_Arith", Isolate: true, Quick: tier(map[string]int{"arithparts": 3, "loopbound": 400}), Thorough: tier(map[string]int{"arithparts": 4, "loopbound": 400}),
				Desc: "no-panic / termination", Bounds: "number filters whose value is a sum of 1..arithparts signed parts (literal, own variable, variables of sub-queries a and b); loop bound 400 per loop header = unwinding assertion (derived: common-factor loop <= #summands passes, decrement <= |factor| <= 4)"},
			{Pkg: qp, Func: "ZZ_C14_Odd", Isolate: true, Quick: tier(map[string]int{"numforms": 2}), Thorough: tier(map[string]int{"numforms": 5}),
				Desc: "no-panic / termination", Bounds: "8 shapes over odd-but-well-formed leaves (empty range sides, duplicates, wrong variable kinds, /0 masks, converter on non-data key, empty list entries)"},
			{Pkg: qp, Func: "ZZ_C14_Deterministic", Quick: tier(map[string]int{"detshapes": 6}), Thorough: tier(map[string]int{"detshapes": 8}),
				Bounds: "shapes over tag leaves of the main query and sub-queries a,b, id lists, data atoms; iteration order of every map with <= 3 entries is a symbolic choice"},
		},
		Assumptions: []string{"grammar stage (participle lexers/parsers: reflection + regex lexers) is not encodable: the claim starts at the parse tree; 'for every byte string' is NOT claimed",
			"a path that exceeds the loop bound is replayed natively under a watchdog and reported only if the native run does not return"},
		Outside: []string{"lexing and grammar", "promptness as wall-clock time", "value lists longer than 3"},
	}

	ix := "internal/index"
	registry["C04"] = CheckSpec{Property: "C04",
		Harnesses: []HarnessSpec{
			{Pkg: ix, Func: "ZZ_C04_Find", Quick: &Tier{Params: map[string]int{"level": 0, "maxlen": 3}, Samples: 30}, Thorough: &Tier{Params: map[string]int{"level": 1, "maxlen": 3, "exprhi": 400}, Samples: 100},
				Bounds: "progressVariant.find vs. the real FindSubmatchIndex on the same buffer (both executed symbolically): expressions of ZZExprs(level), buffer of 0..maxlen symbolic bytes, every start offset, both directions"},
			{Pkg: ix, Func: "ZZ_C04_Find", Desc: "fixed-length + constant suffix expressions, longer buffers", Quick: &Tier{Params: map[string]int{"level": 0, "maxlen": 5, "exprlo": 17, "exprhi": 18}, Samples: 10},
				Thorough: &Tier{Params: map[string]int{"level": 0, "maxlen": 6, "exprlo": 17, "exprhi": 18}, Samples: 10}, Bounds: "[a-c]x, buffers up to 5 (6) bytes: decoy suffixes before the real match"},
			{Pkg: ix, Func: "ZZ_C04_Find", Desc: "fixed-length + constant suffix, case folded class", Quick: &Tier{Params: map[string]int{"level": 0, "maxlen": 4, "exprlo": 50, "exprhi": 51}, Samples: 10},
				Bounds: "(?i)[a-b]c, buffers up to 4 bytes"},
			{Pkg: ix, Func: "ZZ_C04_RawSource", Quick: tier(map[string]int{"streams": 2}), Thorough: tier(map[string]int{"streams": 3}),
				Bounds: "the real SearchStreams over one index file of `streams` streams whose payload per direction has 0..2 symbolic bytes (5 length profiles); filter: one atom in one direction, plain or negated, or client atom THEN server atom: every stream matches by its own payload (raw data source with its reused buffers)"},
			{Pkg: ix, Func: "ZZ_C04_Captures", Quick: tier(map[string]int{"chunks": 2}), Thorough: tier(map[string]int{"chunks": 3}),
				Bounds: "five expressions with a named group (mandatory, optional, in an alternative, possibly empty, trailing optional) over `chunks` one-byte chunks with symbolic bytes and directions: the filter does not panic and agrees with a plain scan"},
			{Pkg: ix, Func: "ZZ_C04_Sequences", Desc: "one condition, THEN chains of up to 3 elements", Quick: tier(map[string]int{"sources": 1, "chunks": 3, "conditions": 1, "elements": 3}), Thorough: tier(map[string]int{"sources": 1, "chunks": 4, "conditions": 1, "elements": 3}),
				Bounds: "the real dataConditionsContainer.add/finalize/makeDataConditionFilter over one converter output of 3 (4) one-byte chunks (directions enumerated, bytes symbolic); 1 data condition of 1..3 elements over atoms a/b in either direction, plain or inverted; oracle = reference scan in conversation order"},
			{Pkg: ix, Func: "ZZ_C04_Sequences", Desc: "two conditions sharing expressions", Quick: tier(map[string]int{"sources": 1, "chunks": 2, "conditions": 2, "elements": 1}), Thorough: tier(map[string]int{"sources": 1, "chunks": 2, "conditions": 2, "elements": 2})},
		},
		Assumptions: []string{"oracle = the real rsc.io/binaryregexp matcher run on buffers[dir][offset:] (the plain scan)", "sync.Pool modelled as always empty"},
		Outside: []string{"buffers longer than maxlen", "variables bound by captures / sub-query variable substitution", "expressions outside the enumerated grammar"},
	}

	cv := "internal/index/converters"
	registry["C15"] = CheckSpec{Property: "C15",
		Harnesses: []HarnessSpec{
			{Pkg: cv, Func: "ZZ_C15_VarInt", Quick: tier(nil), Bounds: "every uint64"},
			{Pkg: cv, Func: "ZZ_C15_VarBytes", Quick: tier(map[string]int{"bytes": 4}), Thorough: tier(map[string]int{"bytes": 6}), Bounds: "every byte string of 0..bytes symbolic bytes"},
			{Pkg: cv, Func: "ZZ_C15_String", Quick: tier(map[string]int{"bytes": 3}), Thorough: tier(map[string]int{"bytes": 5})},
			{Pkg: cv, Func: "ZZ_C15_Truncated", Quick: tier(nil)},
			{Pkg: cv, Func: "ZZ_C15_Cache", Desc: "rich chunk lists, 2 operations", Quick: tier(map[string]int{"ops": 2, "chunks": 2, "chunklen": 2, "ctypes": 2, "dts": 1}), Thorough: tier(map[string]int{"ops": 2, "chunks": 2, "chunklen": 2, "ctypes": 3, "dts": 1}),
				Bounds: "histories of `ops` operations from {store, invalidate, reset, close+reopen} over 2 stream ids; chunk lists of 1..chunks chunks (direction, length 1..chunklen symbolic bytes, content type, time offset chosen)"},
			{Pkg: cv, Func: "ZZ_C15_Cache", Desc: "thin chunk lists, 4 operations", Quick: tier(map[string]int{"ops": 4, "chunks": 1, "chunklen": 1, "ctypes": 1, "dts": 1, "forcecompaction": 1}), Thorough: tier(map[string]int{"ops": 5, "chunks": 1, "chunklen": 1, "ctypes": 1, "dts": 1, "forcecompaction": 1}),
				Bounds: "histories of 4 (5) operations incl. a store with forced in-session compaction (trigger counter raised artificially, state otherwise real)"},
			{Pkg: cv, Func: "ZZ_C15_Cache", Desc: "chunk lists that may be empty, 3 operations", Quick: tier(map[string]int{"ops": 3, "chunks": 1, "chunklen": 1, "ctypes": 1, "dts": 1, "emptylist": 1}), Thorough: tier(map[string]int{"ops": 4, "chunks": 1, "chunklen": 1, "ctypes": 1, "dts": 1, "emptylist": 1, "forcecompaction": 1}),
				Bounds: "as above with chunk lists of 0..1 chunks: an empty converter output is stored, replaces older output and survives a reopen"},
			{Pkg: cv, Func: "ZZ_C15_Cut", Quick: tier(map[string]int{"chunks": 1, "chunklen": 2, "ctypes": 2, "dts": 2}), Thorough: tier(map[string]int{"chunks": 2, "chunklen": 2, "ctypes": 2, "dts": 2}),
				Bounds: "two records, the file cut at every byte position inside the second record"},
			{Pkg: cv, Func: "ZZ_C15_KF_InvalidateReopen", Quick: tier(nil), Desc: "witness of a known finding"},
		},
		Assumptions: []string{"in-memory file system model behind os.File (DESIGN.md 2.4); encoding/binary as a typed codec", "chunks are non-empty (chunk lists may be empty); chunk times are non-decreasing (t0 + chosen offsets); content types from a fixed set", "oracle: a Go map from stream id to the last stored chunk list"},
		Outside: []string{"the >= 16 MiB in-session compaction trigger inside setData (compaction is reached through reopen)", "concurrent readers", "more than 2 stream ids / 2 chunks per list in the rich harness"},
	}

	P := func(kv ...int) map[string]int {
		keys := []string{"minstreams", "streams", "packets", "payload", "gaps", "files", "starts", "idxbases", "ipversions", "protocols", "idxsteps"}
		m := map[string]int{}
		for i, v := range kv {
			m[keys[i]] = v
		}
		return m
	}
	registry["C01"] = CheckSpec{Property: "C01",
		Harnesses: []HarnessSpec{
			{Pkg: ix, Func: "ZZ_C01_HostGroup", Quick: tier(map[string]int{"hosts": 2}), Thorough: tier(map[string]int{"hosts": 3}),
				Bounds: "one step add(x);pop from an arbitrary valid host group (hostSize 4 or 16, 0..hosts distinct hosts, all bytes symbolic)"},
			{Pkg: ix, Func: "ZZ_C01_RoundTrip", Desc: "one stream, up to 3 packets", Quick: tier(P(1, 1, 3, 1, 1, 1, 2, 2, 1, 2, 1)), Thorough: tier(P(1, 1, 3, 2, 1, 1, 2, 2, 2, 2, 1)),
				Bounds: "write+Finalize+NewReader+read back: ids, ports, addresses (v4/v6), protocol flag, payload bytes, packet-index steps symbolic; packet count, directions, payload lengths 0..2, start time, packet-index base (incl. >= 2^32) enumerated"},
			{Pkg: ix, Func: "ZZ_C01_RoundTrip", Desc: "one stream, packet timing variants", Quick: tier(P(1, 1, 2, 1, 4, 1, 3, 1, 1, 1, 1)), Thorough: tier(P(1, 1, 3, 1, 4, 2, 3, 1, 1, 1, 1)),
				Bounds: "gaps of 1us, 0, 30ms, 2s between packets"},
			{Pkg: ix, Func: "ZZ_C01_RoundTrip", Desc: "a stream longer than the 32-bit microsecond offset", Quick: tier(func() map[string]int { m := P(1, 1, 3, 1, 1, 1, 1, 1, 1, 1, 1); m["gapfrom"] = 4; return m }()),
				Bounds: "1..3 packets 40 minutes apart (80 minutes > 2^32 microseconds in total; every single gap below 2^32 microseconds, as the importer's 5 minute inactivity timeout guarantees)"},
			{Pkg: ix, Func: "ZZ_C01_RoundTrip", Desc: "a payload chunk around the 64 KiB record limit", Quick: tier(func() map[string]int { m := P(1, 1, 2, 1, 1, 1, 1, 1, 1, 1, 1); m["bigpayload"] = 1; return m }()),
				Bounds: "the first packet carries 65534..65537 bytes (first and last two symbolic, the rest a fixed pattern): split over two packet records"},
			{Pkg: ix, Func: "ZZ_C01_RoundTrip", Desc: "two streams, one packet each, same capture, index bases in different 2^32 windows", Quick: tier(P(2, 2, 1, 1, 1, 1, 2, 2, 1, 1, 1)), Thorough: tier(P(2, 2, 1, 1, 1, 2, 2, 2, 1, 1, 1))},
			{Pkg: ix, Func: "ZZ_C01_RoundTrip", Desc: "two streams, up to 2 packets each, two captures", Quick: tier(P(2, 2, 2, 0, 1, 2, 1, 1, 1, 1, 1)), Thorough: tier(P(2, 2, 2, 0, 1, 2, 2, 1, 1, 1, 1))},
			{Pkg: ix, Func: "ZZ_C01_SkipCounter", Quick: tier(nil), Bounds: "1 / 254 / 255 / 256 / 300 payload-less packets between two payload packets (sizes concretised), payload bytes symbolic"},
		},
		Assumptions: []string{"in-memory file system + typed encoding/binary codec + byte view of (*[N]byte)(unsafe.Pointer(&obj))", "stream validity as the importer produces it: >= 1 packet, non-decreasing timestamps, gaps < 2^32 us, payload indexes increasing, both addresses of one stream of equal length, distinct stream ids, distinct first source packets", "timestamps are concrete sample values (base 2023-11-14, offsets enumerated)"},
		Outside: []string{"more than 2 streams / 3 packets per stream with symbolic content", "symbolic chunks above 2 bytes other than the 64 KiB entry", "single gaps of 2^32 microseconds or more between consecutive packets (not representable; the importer closes streams after 5 minutes of inactivity)", "host-group overflow (16384 hosts)", "MarshalJSON"},
	}

	M := func(kv ...int) map[string]int {
		keys := []string{"streams", "packets", "payload", "gaps", "files", "starts", "idxbases", "ids", "mergefiles", "addrmode", "saddrs", "dirs", "caddrs"}
		m := map[string]int{}
		for i, v := range kv {
			m[keys[i]] = v
		}
		return m
	}
	registry["C07"] = CheckSpec{Property: "C07",
		Harnesses: []HarnessSpec{
			{Pkg: ix, Func: "ZZ_C07_Merge", Desc: "two files, one stream each, overlapping or distinct ids", Quick: tier(M(1, 1, 1, 1, 1, 2, 1, 2, 1)), Thorough: tier(M(1, 1, 1, 1, 2, 3, 1, 3, 1)),
				Bounds: "input files written by the real writer; stream ids from a 2..3 element domain so overlap / shadowing is enumerated; addresses, ports, payload bytes symbolic; reference seconds of the files differ via start offsets; merged suffix enumerated"},
			{Pkg: ix, Func: "ZZ_C07_Merge", Desc: "two files, up to two streams each", Quick: tier(M(2, 1, 0, 1, 1, 1, 1, 3, 1, 1, 1, 1)), Thorough: tier(M(2, 1, 1, 1, 1, 1, 1, 3, 1, 1, 1, 1))},
			{Pkg: ix, Func: "ZZ_C07_Merge", Desc: "two files, two streams each, first-packet times earlier/later (time re-basing)", Quick: tier(M(2, 1, 0, 1, 1, 3, 1, 2, 1, 1, 1, 1, 1)), Thorough: tier(M(2, 1, 0, 1, 1, 3, 1, 3, 1, 1, 1, 1, 1))},
			{Pkg: ix, Func: "ZZ_C07_Merge", Desc: "three files, suffix of 2 or 3 merged", Quick: tier(M(1, 1, 0, 1, 1, 1, 1, 2, 2, 1)), Thorough: tier(M(1, 1, 0, 1, 1, 2, 1, 2, 2, 1))},
			{Pkg: ix, Func: "ZZ_C07_Merge", Desc: "three files, the merge result merged again with the older file", Quick: tier(func() map[string]int { m := M(1, 1, 0, 1, 1, 1, 1, 2, 2, 1); m["remerge"] = 1; return m }()),
				Bounds: "as the three-file entry; when the two newer files were merged, the result and the older file are merged again: one version per id, every id still resolves to its newest version"},
		},
		Assumptions: []string{"as C01; clock = deterministic increasing instants (file names of merge outputs)", "oracle: the newest version of every id, compared field by field, payload and packet references included"},
		Outside: []string{"more than one re-merge", "search results over both stacks (C02)", "writer overflow paths", "more than 3 files"},
	}

	S := func(kv ...int) map[string]int {
		keys := []string{"queryfrom", "queryforms", "sortings", "limits", "skips", "restricts", "indexfiles"}
		m := map[string]int{}
		for i, v := range kv {
			m[keys[i]] = v
		}
		return m
	}
	c02 := []HarnessSpec{}
	names := []string{"id range", "ltime lower bound", "ltime upper bound", "ftime lower bound", "cport equality", "id range OR cport bound (lookup + no lookup)", "cbytes bound", "tag", "sport equality AND id bound", "time: some packet in range"}
	for f, n := range names {
		c02 = append(c02, HarnessSpec{Pkg: ix, Func: "ZZ_C02_Search", Solver: "cvc5", Desc: "query form: " + n,
			Quick: tier(S(f, 1, []int{2, 3, 3, 3, 3, 2, 3, 3, 3, 2}[f], []int{2, 2, 2, 2, 2, 1, 2, 2, 2, 2}[f], []int{1, 2, 2, 2, 2, 1, 2, 2, 2, 1}[f], 1, 2)), Thorough: tier(S(f, 1, []int{4, 4, 4, 4, 4, 2, 4, 4, 4, 4}[f], 2, []int{2, 2, 2, 2, 2, 1, 2, 2, 2, 2}[f], 1, 2)),
			Bounds: "SearchStreams over 1..2 index files (4 visible streams, one id shadowed by the newer file); query thresholds symbolic; sort key list, limit, skip, id restriction (symbolic allow bits) enumerated"})
	}
	c02 = append(c02, HarnessSpec{Pkg: ix, Func: "ZZ_C02_Search", Solver: "cvc5", Desc: "multi-key sorts whose first key ties",
		Quick:  tier(map[string]int{"ties": 1, "sortfrom": 7, "sortings": 3, "queryfrom": 6, "queryforms": 1, "restricts": 1, "indexfiles": 2}),
		Bounds: "streams that tie on first and on last packet time; sort lists (ftime, -id), (-ltime, cport) and (-ltime, -cport): the first key has a sorted lookup, the second decides; cbytes bound query; limits 1,2,3,100; skip 0,1"})
	c02 = append(c02, HarnessSpec{Pkg: ix, Func: "ZZ_C02_Search", Solver: "cvc5", Desc: "time variable of a sub-query",
		Quick:  tier(map[string]int{"queryfrom": 10, "queryforms": 1, "sortings": 2, "restricts": 1, "indexfiles": 2, "limits": 1, "skips": 1}),
		Bounds: "`@sub:id:S ftime:@sub:ftime@+D:` with symbolic S and D over 1..2 index files with different reference times: the sub-query's stream may live in the other file"})
	for f, n := range []string{"[-]chost:<IPv4 literal>", "[-]shost:<IPv6 literal>", "[-]chost:@sub:chost@ (host of a sub-query's stream)", "[-]shost:@sub:shost@", "[-]shost:10.0.1.H/mask (last byte of address and of mask symbolic)"} {
		c02 = append(c02, HarnessSpec{Pkg: ix, Func: "ZZ_C02_Search", Solver: "cvc5", Desc: "host filter: " + n,
			Quick:  tier(map[string]int{"queryfrom": []int{11, 12, 13, 14, 15}[f], "queryforms": 1, "sortings": 2, "limits": 2, "skips": 1, "restricts": 1, "indexfiles": 2, "mixed": 1}),
			Bounds: "streams of both address families (stream 2 is an IPv6 one, in its own host group; two server addresses among the IPv4 ones) over 1..2 index files; the literal's last byte (0..5), the sub-query's stream id (0..3) symbolic, plain and inverted; 2 sortings, limits 1,2"})
	}
	for k, n := range []string{"id", "cbytes", "sbytes", "ftime", "ltime", "chost", "shost", "cport", "sport"} {
		c02 = append(c02, HarnessSpec{Pkg: ix, Func: "ZZ_C02_Comparators", Solver: "cvc5", Desc: "sort comparator " + n,
			Quick:  tier(map[string]int{"key": k, "streams": 2}),
			Bounds: "the comparator registered for the sort key, on two streams of the same or of different index files (reference seconds symbolic in 1.6e9..1.8e9, host tables of 2 symbolic IPv4/IPv6 hosts each, numeric fields symbolic, packet time offsets from 7 values around the second boundary): less(a,b) <=> key(a) < key(b), irreflexive; every registered sort key has an entry"})
	}
	registry["C02"] = CheckSpec{Property: "C02", Harnesses: c02,
		Assumptions: []string{"queries are given in normal form (ConditionsSet built directly; the parser side is C03)", "stream population: fixed concrete streams written by the real writer; what varies symbolically are the query constants, tag match bits and the id restriction", "oracle: filter by the harness's own reading of the query on its own stream records, rank by the sort key with ties in any order, page, more <=> matches beyond the page"},
		Outside: []string{"grouping", "sub-queries feeding variables other than the time-variable and the host-variable forms", "data conditions (C04)", "more than 4 streams / 2 files", "host filters with masks other than in the last byte, chost:@shost comparisons within one stream"},
	}

	mg := "internal/index/manager"
	registry["C11"] = CheckSpec{Property: "C11",
		Harnesses: []HarnessSpec{
			{Pkg: mg, Func: "ZZ_C11_TagCalls", Isolate: true, Desc: "every history of 2 calls", Quick: tier(map[string]int{"calls": 2, "names": 3, "defs": 10, "loopbound": 2000}),
				Bounds: "calls from {AddTag, UpdateTag(query), UpdateTag(colour), UpdateTag(name), DelTag, UpdateTag(query+colour+mark stream)} on names {tag/a, tag/b, mark/m} with 10 definitions (plain, references to existing/missing tags, sub-query reference, id list, unparsable)"},
			{Pkg: mg, Func: "ZZ_C11_TagCalls", Isolate: true, Desc: "mark and unmark calls", Quick: tier(map[string]int{"calls": 2, "names": 3, "defs": 2, "deffrom": 4, "allcallkinds": 8, "callset": 0, "loopbound": 2000}),
				Bounds: "every history of 2 calls of the 8 kinds (incl. mark / unmark of one stream id 0..5, four streams known) over tag/a, tag/b, mark/m with the definitions tag:missing and id:1,2: an accepted mark change is applied"},
			{Pkg: mg, Func: "ZZ_C11_TagCalls", Isolate: true, Desc: "one call from every valid configuration of three tags", Quick: tier(map[string]int{"calls": 1, "prestate": 1, "defs": 11, "loopbound": 2000}),
				Bounds: "pre-state: tag/a plain, tag/b in {plain, tag:a, @s:tag:a ...}, tag/c in {plain, tag:a, tag:b, tag:a tag:b, @s:tag:b ...}; then one call of any of the 6 kinds on any of the three names with any of the 11 definitions"},
			{Pkg: mg, Func: "ZZ_C11_TagCalls", Isolate: true, Desc: "every history of 3 calls (add / update query / delete / rename)", Quick: tier(map[string]int{"calls": 3, "names": 2, "defs": 3, "callset": 1, "callkinds": 4, "loopbound": 2000}),
				Thorough: tier(map[string]int{"calls": 4, "names": 2, "defs": 3, "callset": 1, "callkinds": 3, "loopbound": 2000}), Bounds: "reference cycles need three calls; inheritTagUncertainty loop bound 2000 (derived: one pass per tag) as unwinding assertion"},
			{Pkg: mg, Func: "ZZ_C11_TagCalls", Isolate: true, Desc: "3 calls with sub-query references and renames", Quick: tier(map[string]int{"calls": 3, "names": 2, "defs": 2, "deffrom": 5, "callset": 1, "callkinds": 4, "loopbound": 2000})},
		},
		Assumptions: []string{"Manager constructed in-package as New() does, without watchers, converters and stored state; the real service loop goroutine runs under the engine's cooperative run-to-block scheduler (FIFO)", "stubbed out: saveState (JSON via reflection), startTaggingJobIfNeeded/startConverterJobIfNeeded/startMergeJobIfNeeded (no effect on the tag table), query.Parse = table of the definitions used (natively the real parser)", "oracle: digest of all tags unchanged when a call returns an error; every reference resolves; referencedBy mirrors the definitions; the graph is acyclic; ListTags.Referenced mirrors the definitions"},
		Outside: []string{"converter attach/detach (external processes)", "histories longer than 3 (4) calls", "concurrent API callers"},
	}

	svc := HarnessSpec{Pkg: mg, Func: "ZZ_SVC_Scenarios", Quick: &Tier{Params: map[string]int{"realjobs": 1, "scenarios": 13}, Samples: 13},
		Thorough: &Tier{Params: map[string]int{"realjobs": 1, "scenarios": 13, "payloadmax": 6, "thresholdmax": 12}, Samples: 26},
		Bounds: "thirteen job-level schedules: sequential imports with merge; queued imports; an import completing while a merge is in flight; an import extending a stream while a tagging job of a data tag is in flight; an import that creates no index followed by a merge; a capture arriving out of chronological order (stream reset); a referenced tag edited (to a definition with other members / with no members) while the job of the tag referencing it is in flight; a view first used before the first import; a tag deleted, re-added and referenced while its job is in flight; a tag deleted while its job is in flight, then a merge; a stream marked while the job of a tag referencing the mark is in flight; a view held across later imports and a merge; a view taken while the served list has spare capacity, then an import landing in the spare slot and a merge of the newer files only (offset 1) rewriting the list in place. Payload sizes of the first flow and the threshold of the data tag are symbolic"}
	svcAssume := []string{"Manager constructed in-package as New() does (no watchers, converters, stored state); real service loop, real import/tagging/merge jobs and completion closures; goroutines under the engine's cooperative scheduler", "engine: Builder.FromPcap (cgo libpcap) replaced by a scripted importer that writes the index with the real Writer; natively the real importer reads generated capture files", "interleavings are sequenced by the harness at job granularity (the in-flight job's snapshot is taken by hand exactly as the starter does), so the schedule replays natively"}
	svcOut := []string{"interleavings below job granularity", "converter jobs", "more than 4 captures"}
	svcSub := HarnessSpec{Pkg: mg, Func: "ZZ_SVC_Scenarios", Desc: "with a tag whose definition has a sub-query", Quick: &Tier{Params: map[string]int{"realjobs": 1, "scenarios": 2, "subtag": 1}, Samples: 4},
		Thorough: &Tier{Params: map[string]int{"realjobs": 1, "scenarios": 6, "subtag": 1, "payloadmax": 5, "thresholdmax": 10}, Samples: 8},
		Bounds: "the sequential and the queued schedule with a fourth tag `@s:cport:1000 cport:@s:cport@:` (re-evaluated as a whole after every import)"}
	for _, pid := range []string{"C06", "C09", "C10", "C13"} {
		registry[pid] = CheckSpec{Property: pid, Harnesses: []HarnessSpec{svc}, Assumptions: svcAssume, Outside: svcOut}
	}
	{
		c := registry["C06"]
		c.Harnesses = append(c.Harnesses, svcSub)
		registry["C06"] = c
		// the tag graph is checked at every quiescent point of the scenarios as well
		c11 := registry["C11"]
		c11.Harnesses = append(c11.Harnesses, svc)
		registry["C11"] = c11
	}
	c06 := registry["C06"]
	c06.Harnesses = append([]HarnessSpec{{Pkg: qp, Func: "ZZ_C06_InlineTagFilters", Solver: "cvc5", Quick: tier(nil),
		Bounds: "searches over two tags (both / either / with a port filter, plain or negated) whose definitions have 1..2 alternatives with symbolic bounds; for each tag some or no stream pending; the stream's stored match and pending bits symbolic"}}, c06.Harnesses...)
	c06.Assumptions = append(c06.Assumptions, "query side: the meaning of a search while streams are pending = decided streams by their stored bit, pending streams by the tag's definition (InlineTagFilters); evaluated with the C03 condition evaluator")
	registry["C06"] = c06

	cnv := HarnessSpec{Pkg: mg, Func: "ZZ_C16_Converters", Quick: &Tier{Params: map[string]int{"realjobs": 1, "scenarios": 10}, Samples: 10},
		Thorough: &Tier{Params: map[string]int{"realjobs": 1, "scenarios": 10, "payloadmax": 6, "thresholdmax": 12}, Samples: 16},
		Bounds: "ten job-level schedules with one converter: attached after imports, then an import that extends a converted stream and adds a matching one; attached before the first import; an import extending a stream while the converter job about to convert it is in flight; attached to a second tag while its job for the first is in flight; detached, then an import with a matching stream; converter restarted; an out-of-order capture rebuilding a converted stream; output requested through a view older than an import; the definition of a tag with the converter attached edited; output of a converter attached to no tag requested on demand, then an import extending that stream, then the converter attached. Payload sizes and the data tag's threshold symbolic"}
	registry["C16"] = CheckSpec{Property: "C16", Harnesses: []HarnessSpec{cnv},
		Assumptions: append([]string{"the converter process (os/exec, pipes, JSON line protocol) is replaced in the engine by a scripted converter computing the same function of the stream's payload (one client chunk: 'A' + client bytes mod 26) as the python executable the native replay really starts through the real process layer", "the converter is registered as addConverter does (NewCache + the two maps) without the executable/regexp checks"}, svcAssume...),
		Outside: []string{"more than one converter", "converter processes that fail, time out or answer malformed lines", "converter restarts racing with a running job", "data filters with a converter selector (C04 part B covers the filter over a converter-style source)", "interleavings below job granularity"}}
	{
		c := registry["C09"]
		c.Harnesses = append(c.Harnesses, cnv)
		registry["C09"] = c
	}

	registry["C19"] = CheckSpec{Property: "C19",
		Harnesses: []HarnessSpec{
			{Pkg: "cmd/pkappa2", Func: "ZZ_C19_Upload", Quick: tier(map[string]int{"maxfree": 5}), Thorough: tier(map[string]int{"maxfree": 7}),
				Bounds: "the real upload handler closure of setupRouter (captured at route registration) with the routed parameter = 1..maxfree arbitrary symbolic bytes + .pcap/.pcapng; existing / new target file"},
			{Pkg: "cmd/pkappa2", Func: "ZZ_C19_Upload", Desc: "names with an escaped separator", Quick: tier(map[string]int{"escapedsep": 1}),
				Bounds: "routed parameter = 2 arbitrary bytes + one of %2F %2f %5C %252F %2E + 1 arbitrary byte + extension"},
			{Pkg: "cmd/pkappa2", Func: "ZZ_C19_Overlap", Quick: tier(nil),
				Bounds: "two uploads of one name, the second arriving while the first is receiving its body (the first body's first Read hands over): not both acknowledged, the stored capture is the acknowledged one's, queued once; engine: handler closures as goroutines over the modelled file system (O_EXCL), native: the real router with a real Manager"},
			{Pkg: "cmd/pkappa2", Func: "ZZ_C19_Download", Quick: tier(map[string]int{"maxfree": 6}), Thorough: tier(map[string]int{"maxfree": 8}),
				Desc: "no-native", Bounds: "the real download handler closure; parameter assumed to satisfy the route pattern (no / or \\)"},
		},
		Assumptions: []string{"chi routing is not executed in the engine: route registration is intercepted to capture the handler closures, chi.URLParam returns the symbolic string (the string a request line is routed to is decided by chi's percent-decoding and matching, outside)", "os.OpenFile / http.ServeFile / Manager.ImportPcaps are recording stubs; path/filepath is the real interpreted code", "native replay sends the same name through the real router, handler and Manager and compares the directory tree outside the capture directory before and after"},
		Outside: []string{"two concurrent uploads of the same name (kernel O_EXCL atomicity)", "chi's routing and percent-decoding", "http.ServeFile's own path checks", "names longer than maxfree+7 bytes"},
	}

	c12p := map[string]int{"streams": 2, "packets": 1, "payload": 1, "gaps": 1, "files": 1, "starts": 1, "idxbases": 1, "addrmode": 1, "saddrs": 1, "caddrs": 1, "dirs": 1}
	registry["C12"] = CheckSpec{Property: "C12",
		Harnesses: []HarnessSpec{
			{Pkg: ix, Func: "ZZ_C12_IndexCut", Quick: tier(c12p), Bounds: "a finalized index file of 2 streams cut at every byte position: NewReader must reject it; uncut it serves everything"},
			{Pkg: ix, Func: "ZZ_C12_Unfinalized", Quick: tier(c12p), Bounds: "writer closed without Finalize, buffer flushed or not: rejected (magic is written last)"},
			{Pkg: "internal/index/builder", Func: "ZZ_C12_Snapshots", Quick: tier(nil), Bounds: "1..2 snapshots, 1..2 capture names, 0..2 packet numbers each (symbolic), chunk counts symbolic: save/load round trip; the file cut at every byte position is an error"},
			{Pkg: cv, Func: "ZZ_C15_Cache", Desc: "chunk lists that may be empty, 3 operations", Quick: tier(map[string]int{"ops": 3, "chunks": 1, "chunklen": 1, "ctypes": 1, "dts": 1, "emptylist": 1}), Thorough: tier(map[string]int{"ops": 4, "chunks": 1, "chunklen": 1, "ctypes": 1, "dts": 1, "emptylist": 1, "forcecompaction": 1}),
				Bounds: "as above with chunk lists of 0..1 chunks: an empty converter output is stored, replaces older output and survives a reopen"},
			{Pkg: cv, Func: "ZZ_C15_Cut", Quick: tier(map[string]int{"chunks": 1, "chunklen": 2, "ctypes": 2, "dts": 2}), Bounds: "converter cache cut inside its last record (shared with C15)"},
			{Pkg: mg, Func: "ZZ_C12_Restart", Quick: &Tier{Params: map[string]int{"realjobs": 1, "gates": 10, "thirdlife": 1}, Samples: 10}, Thorough: &Tier{Params: map[string]int{"realjobs": 1, "gates": 10, "thirdlife": 1, "payloadmax": 6, "thresholdmax": 12}, Samples: 20}, Bounds: "a service with 3 tags and 2..3 imported captures is shut down or killed at one of 9 job-level gates (settled; tagging job in flight with a later import completed; between an import's body and completion; inside the body with the index cut at 4 positions; merge body between an import's body and completion, killed / shut down later; inside a state save with the new file cut at 4 positions; while the inputs of a finished merge were being deleted; between writing the new state file and removing the old one); the real manager.New starts from the directories left behind, settles, optionally imports one more capture; payload sizes and the data tag's threshold symbolic"},
			{Pkg: mg, Func: "ZZ_C12_Restart", Desc: "endpoint and webhook across two restarts", Quick: &Tier{Params: map[string]int{"realjobs": 1, "gates": 10, "gatefrom": 9, "onlymarks": 1}, Samples: 4},
				Bounds: "a service with a pcap-over-ip endpoint, a webhook and a mark (no tag that is re-evaluated after a restart) is killed after a capture file was stored and before its import started; restarted (the capture directory lists a file the state file does not), shut down cleanly, restarted again: tags, endpoint and webhook are shown in both lives. The same gate also runs with the three regular tags in the entries above"},
			{Pkg: mg, Func: "ZZ_C12_Restart", Desc: "with a mark and a tag referencing it", Quick: &Tier{Params: map[string]int{"realjobs": 1, "gates": 10, "marks": 1}, Samples: 10},
				Bounds: "the same nine gates with two more acknowledged tags: mark/m (id list) and tag/viam = mark:m"},
		},
		Assumptions: []string{"restart scenarios: the directories a kill leaves are built from directory snapshots at job-level gates (the service loop parked, the job's completion received by the harness); the real manager.New starts from a copy; encoding/json is a typed whole-document codec in the engine (natively the real one), os.ReadDir over the modelled file system; fsnotify, permission probes, the two background workers and the connecting goroutine of pcap-over-ip endpoints are stubbed in the engine", "file formats: a half-written index, snapshot or cache file is modelled as a prefix of the complete file (cut at a byte) or as the pre-Finalize content; completed system calls persist"},
		Outside: []string{"crash points below job granularity other than the half-written-file gates", "converter attachments across a restart", "torn writes / reordering below system-call level"},
	}
}
