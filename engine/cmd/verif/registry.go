package main

var registry = map[string]CheckSpec{}

func q(maxPaths int) *Tier { return &Tier{MaxPaths: maxPaths} }

func init() {
	registry["SMOKE"] = CheckSpec{Property: "SMOKE", Harnesses: []HarnessSpec{
		{Pkg: "internal/tools/bitmask", Func: "ZZ_Smoke", Quick: q(0)},
	}}
}
