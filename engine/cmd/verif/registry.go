package main

var registry = map[string]CheckSpec{}

func tier(params map[string]int) *Tier { return &Tier{Params: params} }

func init() {
	registry["SMOKE"] = CheckSpec{Property: "SMOKE", Harnesses: []HarnessSpec{
		{Pkg: "internal/tools/bitmask", Func: "ZZ_Smoke", Quick: tier(nil)},
	}}

	bm := "internal/tools/bitmask"
	w2, w3 := map[string]int{"words": 2}, map[string]int{"words": 3}
	r2, r3 := map[string]int{"runs": 2}, map[string]int{"runs": 3}
	registry["C17"] = CheckSpec{Property: "C17",
		Harnesses: []HarnessSpec{
			{Pkg: bm, Func: "ZZ_C17_Long_IsSet", Quick: tier(w3), Thorough: tier(map[string]int{"words": 4}), Bounds: "0..words symbolic 64-bit words, fresh 64-bit q"},
			{Pkg: bm, Func: "ZZ_C17_Long_Point", Quick: tier(w2), Thorough: tier(w3), Bounds: "Set/Unset/Flip(p), p < 64*(words+2)"},
			{Pkg: bm, Func: "ZZ_C17_Long_Binary", Quick: tier(w2), Thorough: tier(w3), Bounds: "Or/And/Xor/Sub and Copy variants, operands 0..words words each"},
			{Pkg: bm, Func: "ZZ_C17_Long_Observers", Quick: tier(w2), Thorough: tier(w3)},
			{Pkg: bm, Func: "ZZ_C17_Long_Next", Quick: tier(w2), Thorough: tier(w3)},
			{Pkg: bm, Func: "ZZ_C17_Long_OnesCount", Quick: tier(w3), Thorough: tier(map[string]int{"words": 4})},
			{Pkg: bm, Func: "ZZ_C17_OnesCount_Bit", Quick: tier(nil), Bounds: "one word, positions 0,1,31,32,62,63"},
			{Pkg: bm, Func: "ZZ_C17_Long_Equal", Quick: tier(w2), Thorough: tier(w3)},
			{Pkg: bm, Func: "ZZ_C17_Long_Inject", Quick: tier(w2), Thorough: tier(w3), Bounds: "Inject(p,v) recursion through all words"},
			{Pkg: bm, Func: "ZZ_C17_Short_IsSet", Quick: tier(w3), Thorough: tier(map[string]int{"words": 4})},
			{Pkg: bm, Func: "ZZ_C17_Short_Point", Quick: tier(w2), Thorough: tier(w3)},
			{Pkg: bm, Func: "ZZ_C17_Short_Binary", Quick: tier(w2), Thorough: tier(w3)},
			{Pkg: bm, Func: "ZZ_C17_Short_Observers", Quick: tier(w2), Thorough: tier(w3)},
			{Pkg: bm, Func: "ZZ_C17_Short_OnesCount", Quick: tier(w3), Thorough: tier(map[string]int{"words": 4})},
			{Pkg: bm, Func: "ZZ_C17_Short_Equal", Quick: tier(w2), Thorough: tier(w3)},
			{Pkg: bm, Func: "ZZ_C17_Short_InjectExtract", Quick: tier(w2), Thorough: tier(w3)},
			{Pkg: bm, Func: "ZZ_C17_Conn_IsSet", Solver: "cvc5", Quick: tier(r3), Thorough: tier(map[string]int{"runs": 4})},
			{Pkg: bm, Func: "ZZ_C17_Conn_Point", Solver: "cvc5", Quick: tier(r2), Thorough: tier(r3), Bounds: "0..runs valid runs (sorted, disjoint, not touching, < 2^62), Set/Unset/Flip"},
			{Pkg: bm, Func: "ZZ_C17_Conn_Or", Solver: "cvc5", Quick: tier(r2), Thorough: tier(r3)},
			{Pkg: bm, Func: "ZZ_C17_Conn_And", Solver: "cvc5", Quick: tier(r2), Thorough: tier(r3)},
			{Pkg: bm, Func: "ZZ_C17_Conn_Xor", Solver: "cvc5", Quick: tier(r2), Thorough: tier(r3)},
			{Pkg: bm, Func: "ZZ_C17_Conn_XorThenExtract", Solver: "cvc5", Quick: tier(map[string]int{"runs": 1}), Thorough: tier(r2), Bounds: "two steps: XorCopy then Equal/Extract, observable results only"},
			{Pkg: bm, Func: "ZZ_C17_Conn_Sub", Solver: "cvc5", Quick: tier(r2), Thorough: tier(r3)},
			{Pkg: bm, Func: "ZZ_C17_Conn_EqualCopy", Solver: "cvc5", Quick: tier(r2), Thorough: tier(r3)},
			{Pkg: bm, Func: "ZZ_C17_Conn_Inject", Solver: "cvc5", Quick: tier(r2), Thorough: tier(r3)},
			{Pkg: bm, Func: "ZZ_C17_Conn_Extract", Solver: "cvc5", Quick: tier(r2), Thorough: tier(r3)},
			{Pkg: bm, Func: "ZZ_C17_Agree", Quick: tier(w2), Thorough: tier(w3)},
			{Pkg: bm, Func: "ZZ_C17_AgreeConn", Quick: tier(map[string]int{"runlen": 3}), Thorough: tier(map[string]int{"runlen": 6})},
		},
		Assumptions: []string{
			"ConnectedBitmask pre-states satisfy the canonical form: runs sorted, min<=max, disjoint and not touching (max+1 < next.min), values < 2^62",
			"bit positions passed to Set/Flip/Inject of Long/Short masks are < 64*(words+2) (larger positions only allocate more zero words)",
			"math/bits population count, leading and trailing zero counts are encoded as bit-vector terms (trusted)",
		},
		Outside: []string{"more words/runs than the stated parameter", "run bounds >= 2^62 (overflow of max+1)"},
	}

	ra := "internal/tools/regexAnalysis"
	registry["C18"] = CheckSpec{Property: "C18",
		Harnesses: []HarnessSpec{
			{Pkg: ra, Func: "ZZ_C18_Analysis", Quick: &Tier{Params: map[string]int{"level": 0, "maxlen": 5}, Samples: 60},
				Thorough: &Tier{Params: map[string]int{"level": 1, "maxlen": 6}, Samples: 300},
				Bounds: "expressions of the bounded grammar ZZExprs(level) (enumerated), every byte string of length 0..maxlen symbolic"},
		},
		Assumptions: []string{
			"oracle = fork-free Thompson simulation (harness, ~120 lines) of the same compiled syntax.Prog; validated on every run against rsc.io/binaryregexp on the solver's models (native replay, label simulation-agrees-with-binaryregexp)",
			"exactness (min/max attained) is asserted only for expressions without empty-width assertions (the analysis walks assertions as no-ops by design)",
			"multi-value returns are evaluated in gc's order (calls first, variable reads last), see engine getLate",
		},
		Outside: []string{"strings longer than maxlen", "expressions outside the enumerated grammar", "counted repetition above 3", "runes above 0xFF"},
	}
}
