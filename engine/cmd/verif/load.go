package main

import (
	"os"
	"path/filepath"
	"strings"

	"verifengine/sx"
)

// repoDir is the tree under check: /repo, unless VERIF_REPO names a scratch
// worktree (used only by tools/mutest.sh to try seeded changes without
// touching /repo while other checks are running).
var repoDir = func() string {
	if d := os.Getenv("VERIF_REPO"); d != "" {
		return d
	}
	return "/repo"
}()

var verifDir = func() string {
	if d := os.Getenv("VERIF_DIR"); d != "" {
		return d
	}
	return "/verif"
}()

// overlayFiles maps harness sources under /verif/harness into /repo paths.
// harness/zzverif/*.go            -> /repo/internal/zzverif/
// harness/<pkg path>/zz_verif_*.go -> /repo/<pkg path>/
func overlayFiles() (map[string]string, error) {
	res := map[string]string{}
	root := filepath.Join(verifDir, "harness")
	err := filepath.Walk(root, func(path string, info os.FileInfo, err error) error {
		if err != nil || info.IsDir() || !strings.HasSuffix(path, ".go") {
			return err
		}
		rel, _ := filepath.Rel(root, path)
		if strings.HasPrefix(rel, "zzverif/") {
			res[filepath.Join(repoDir, "internal", rel)] = path
		} else {
			res[filepath.Join(repoDir, rel)] = path
		}
		return nil
	})
	// the embedded front-end is not built in this sandbox
	idx := filepath.Join(repoDir, "web/dist/index.html")
	if _, e := os.Stat(idx); e != nil {
		res[idx] = filepath.Join(verifDir, "harness", "index.html.stub")
	}
	return res, err
}

func loadProgram(patterns []string) (*sx.Program, error) {
	files, err := overlayFiles()
	if err != nil {
		return nil, err
	}
	ov := map[string][]byte{}
	for virt, real := range files {
		b, err := os.ReadFile(real)
		if err != nil {
			if strings.HasSuffix(real, ".stub") {
				b = []byte("<html></html>")
			} else {
				return nil, err
			}
		}
		// native-only files are excluded from the engine's view by build tag
		ov[virt] = b
	}
	return sx.Load(repoDir, ov, patterns)
}
