package main

// Native replay: run harness functions, compiled by the real toolchain
// against the real code, on concrete models produced by the solver.

import (
	"bufio"
	"bytes"
	"context"
	"encoding/json"
	"fmt"
	"os"
	"os/exec"
	"path/filepath"
	"sort"
	"strings"
	"time"
)

type ReplayCase struct {
	ID      string            `json:"id"`
	Harness string            `json:"harness"`
	Model   map[string]uint64 `json:"model"`
	Known   []string          `json:"known,omitempty"`
	Params  map[string]int    `json:"params,omitempty"`
}

type ReplayOutcome struct {
	ID      string   `json:"id"`
	Outcome string   `json:"outcome"` // ok | assert | panic | assume-failed | timeout | no-such-harness | missing
	Detail  string   `json:"detail"`
	Obs     []string `json:"obs"`
}

// harnessNames lists the ZZ_ functions declared in the harness files of a package dir.
func harnessNames(pkgRel string) ([]string, string) {
	dir := filepath.Join(verifDir, "harness", pkgRel)
	ents, _ := os.ReadDir(dir)
	var names []string
	pkgName := ""
	for _, e := range ents {
		if !strings.HasSuffix(e.Name(), ".go") {
			continue
		}
		b, _ := os.ReadFile(filepath.Join(dir, e.Name()))
		sc := bufio.NewScanner(bytes.NewReader(b))
		sc.Buffer(make([]byte, 1<<20), 1<<20)
		for sc.Scan() {
			l := sc.Text()
			if strings.HasPrefix(l, "package ") && pkgName == "" {
				pkgName = strings.TrimSpace(strings.TrimPrefix(l, "package "))
			}
			if strings.HasPrefix(l, "func ZZ_") {
				n := l[len("func "):]
				if k := strings.IndexByte(n, '('); k > 0 && strings.HasPrefix(n[k:], "()") {
					names = append(names, n[:k])
				}
			}
		}
	}
	sort.Strings(names)
	return names, pkgName
}

// nativeReplay runs the cases of one package natively. perCaseTimeout > 0
// runs every case in its own process under a watchdog.
func nativeReplay(pkgRel string, cases []ReplayCase, timeout time.Duration, isolate bool) (map[string]ReplayOutcome, error) {
	res := map[string]ReplayOutcome{}
	if len(cases) == 0 {
		return res, nil
	}
	work, err := os.MkdirTemp(filepath.Join(verifDir, ".work"), "replay-")
	if err != nil {
		return nil, err
	}
	defer os.RemoveAll(work)
	names, pkgName := harnessNames(pkgRel)
	var tb strings.Builder
	fmt.Fprintf(&tb, "//go:build verif\n\npackage %s\n\nimport (\n\t\"testing\"\n\n\tzz \"%s/internal/zzverif\"\n)\n\n", pkgName, "github.com/spq/pkappa2")
	tb.WriteString("func TestZZReplay(t *testing.T) {\n\tzz.RunReplays(map[string]func(){\n")
	for _, n := range names {
		fmt.Fprintf(&tb, "\t\t%q: %s,\n", n, n)
	}
	tb.WriteString("\t})\n}\n")
	testFile := filepath.Join(work, "zz_verif_replay_test.go")
	os.WriteFile(testFile, []byte(tb.String()), 0o644)

	files, err := overlayFiles()
	if err != nil {
		return nil, err
	}
	repl := map[string]string{}
	for virt, real := range files {
		if strings.HasSuffix(real, ".stub") {
			stub := filepath.Join(work, "index.html")
			os.WriteFile(stub, []byte("<html></html>"), 0o644)
			real = stub
		}
		repl[virt] = real
	}
	repl[filepath.Join(repoDir, pkgRel, "zz_verif_replay_test.go")] = testFile
	ovb, _ := json.Marshal(map[string]any{"Replace": repl})
	ovFile := filepath.Join(work, "overlay.json")
	os.WriteFile(ovFile, ovb, 0o644)

	// build the test binary once
	bin := filepath.Join(work, "replay.test")
	build := exec.Command("go", "test", "-c", "-tags", "verif", "-vet=off", "-overlay", ovFile, "-o", bin, "./"+pkgRel)
	build.Dir = repoDir
	if out, err := build.CombinedOutput(); err != nil {
		return nil, fmt.Errorf("native build failed: %v\n%s", err, out)
	}

	runBatch := func(batch []ReplayCase) {
		cf := filepath.Join(work, "cases.json")
		b, _ := json.Marshal(batch)
		os.WriteFile(cf, b, 0o644)
		ctx, cancel := context.WithTimeout(context.Background(), timeout)
		defer cancel()
		cmd := exec.CommandContext(ctx, bin, "-test.run", "^TestZZReplay$", "-test.count=1", "-test.timeout", "0")
		cmd.Dir = filepath.Join(repoDir, pkgRel)
		cmd.Env = append(os.Environ(), "ZZVERIF_REPLAYS="+cf)
		out, _ := cmd.CombinedOutput()
		for _, l := range strings.Split(string(out), "\n") {
			if k := strings.Index(l, "ZZVERIF-RESULT "); k >= 0 {
				var o ReplayOutcome
				if json.Unmarshal([]byte(l[k+len("ZZVERIF-RESULT "):]), &o) == nil {
					res[o.ID] = o
				}
			}
		}
		timedOut := ctx.Err() != nil
		for _, c := range batch {
			if _, ok := res[c.ID]; !ok {
				if timedOut {
					res[c.ID] = ReplayOutcome{ID: c.ID, Outcome: "timeout"}
					timedOut = false // only the first unfinished case was running
				} else if k := strings.LastIndex(string(out), "ZZVERIF-ASSERT-FAIL "); k >= 0 && len(batch) == 1 {
					// the assertion failed in a goroutine other than the test's: the process died
					label := string(out)[k+len("ZZVERIF-ASSERT-FAIL "):]
					if nl := strings.IndexByte(label, '\n'); nl >= 0 {
						label = label[:nl]
					}
					res[c.ID] = ReplayOutcome{ID: c.ID, Outcome: "assert", Detail: strings.TrimSpace(label)}
				} else {
					res[c.ID] = ReplayOutcome{ID: c.ID, Outcome: "missing", Detail: lastLines(string(out), 15)}
				}
			}
		}
	}
	if isolate {
		for _, c := range cases {
			runBatch([]ReplayCase{c})
		}
	} else {
		runBatch(cases)
		// cases lost to a crash/timeout of an earlier case are re-run alone
		for _, c := range cases {
			if o := res[c.ID]; o.Outcome == "missing" {
				delete(res, c.ID)
				runBatch([]ReplayCase{c})
			}
		}
	}
	return res, nil
}

func lastLines(s string, n int) string {
	ls := strings.Split(strings.TrimSpace(s), "\n")
	if len(ls) > n {
		ls = ls[len(ls)-n:]
	}
	return strings.Join(ls, "\n")
}
