package main

import (
	"encoding/json"
	"flag"
	"fmt"
	"os"
	"strconv"
	"strings"
	"time"

	"verifengine/sx"
)

func main() {
	os.Setenv("PATH", "/opt/veriftools/go1.26.8/bin:"+os.Getenv("PATH"))
	os.Setenv("GOFLAGS", "-mod=mod")
	os.Setenv("GOPROXY", "off")
	os.Setenv("GOSUMDB", "off")
	os.Setenv("GOTOOLCHAIN", "local")
	if len(os.Args) < 2 {
		fmt.Fprintln(os.Stderr, "usage: verif run|check|replay ...")
		os.Exit(2)
	}
	switch os.Args[1] {
	case "run":
		cmdRun(os.Args[2:])
	case "check":
		os.Exit(cmdCheck(os.Args[2:]))
	case "replay":
		os.Exit(cmdReplay(os.Args[2:]))
	default:
		fmt.Fprintln(os.Stderr, "unknown command")
		os.Exit(2)
	}
}

// cmdRun explores a single harness and prints the raw result (development aid).
func cmdRun(args []string) {
	fs := flag.NewFlagSet("run", flag.ExitOnError)
	pkg := fs.String("pkg", "", "package import path (relative to module)")
	fn := fs.String("func", "", "harness function")
	workers := fs.Int("workers", 16, "")
	maxPaths := fs.Int("maxpaths", 0, "")
	loop := fs.Int("loop", 0, "")
	dev := fs.Int("dev", 0, "scheduler deviations")
	samples := fs.Int("samples", 2, "")
	solver := fs.String("solver", "", "z3|cvc5")
	tmo := fs.Int("timeout", 0, "solver timeout ms")
	prof := fs.Bool("profile", false, "")
	params := fs.String("params", "", "k=v,k=v harness parameters")
	fs.Parse(args)
	sx.Params = map[string]int{}
	for _, kv := range strings.Split(*params, ",") {
		if k, v, ok := strings.Cut(kv, "="); ok {
			n, _ := strconv.Atoi(v)
			sx.Params[k] = n
		}
	}
	P, err := loadProgram([]string{"./" + *pkg})
	if err != nil {
		fmt.Fprintln(os.Stderr, err)
		os.Exit(2)
	}
	fmt.Fprintf(os.Stderr, "loaded in %v\n", P.LoadTime.Round(time.Millisecond))
	res := sx.Explore(P, sx.HarnessCfg{Pkg: sx.RepoModule + "/" + *pkg, Func: *fn, Profile: *prof, Solver: *solver, SolverTimeoutMS: *tmo, Workers: *workers, MaxPaths: *maxPaths, LoopBound: *loop, MaxDeviations: *dev, SampleModels: *samples, DumpDir: "/verif/.work/unknown"})
	res.Functions = nil
	b, _ := json.MarshalIndent(res, "", " ")
	fmt.Println(string(b))
}
