package main

// `verif check <property> --tier quick|thorough`: explore every harness
// registered for the property, replay candidate violations natively, validate
// sampled passing paths against the native build, write the evidence file.

import (
	"bufio"
	"encoding/json"
	"flag"
	"fmt"
	"os"
	"path/filepath"
	"sort"
	"strconv"
	"strings"
	"time"

	"verifengine/sx"
)

type Tier struct {
	MaxPaths   int
	LoopBound  int
	MaxInstr   int64
	Deviations int
	DeadlineS  int
	TimeoutMS  int
	Samples    int
	Params     map[string]int
}

type HarnessSpec struct {
	Pkg      string // package dir relative to the repository root
	Func     string
	Desc     string
	Quick    *Tier
	Thorough *Tier
	Solver   string
	Isolate  bool // replay every case in its own process (termination harnesses)
	Bounds   string
}

type CheckSpec struct {
	Property    string
	Harnesses   []HarnessSpec
	Assumptions []string
	Stubs       []string
	Outside     []string
}

type KnownFinding struct {
	Property string `json:"property"`
	ID       string `json:"id"`
	Status   string `json:"status"` // known | fixed
	Harness  string `json:"harness,omitempty"`
	Commit   string `json:"commit,omitempty"`
	What     string `json:"what"`
}

func loadKnownFindings() []KnownFinding {
	var res []KnownFinding
	f, err := os.Open(filepath.Join(verifDir, "known_findings.jsonl"))
	if err != nil {
		return nil
	}
	defer f.Close()
	sc := bufio.NewScanner(f)
	sc.Buffer(make([]byte, 1<<20), 1<<20)
	for sc.Scan() {
		l := strings.TrimSpace(sc.Text())
		if l == "" || strings.HasPrefix(l, "#") {
			continue
		}
		var k KnownFinding
		if json.Unmarshal([]byte(l), &k) == nil {
			res = append(res, k)
		}
	}
	return res
}

type harnessEvidence struct {
	Harness     string            `json:"harness"`
	Desc        string            `json:"desc,omitempty"`
	Bounds      string            `json:"bounds,omitempty"`
	Params      map[string]int    `json:"params,omitempty"`
	Paths       int               `json:"paths"`
	ByStatus    map[string]int    `json:"by_status"`
	Transitions int               `json:"transitions"`
	Obligations int               `json:"obligations"`
	Discharged  int               `json:"discharged"`
	Covers      map[string]int    `json:"covers,omitempty"`
	Asserts     map[string]int    `json:"asserts_reached"`
	RepoInstr   int64             `json:"repo_instructions_executed"`
	MaxPathInstr int64            `json:"max_instructions_on_a_path"`
	Problems    []string          `json:"problems,omitempty"`
	WallS       float64           `json:"wall_s"`
	Solver      map[string]any    `json:"solver"`
	Validated   int               `json:"traces_validated"`
	Violations  int               `json:"violations"`
}

func cmdCheck(args []string) int {
	fs := flag.NewFlagSet("check", flag.ExitOnError)
	tierName := fs.String("tier", os.Getenv("VERIF_TIER"), "quick|thorough")
	only := fs.String("only", "", "restrict to harnesses whose name contains this")
	workers := fs.Int("workers", 16, "")
	descOnly := fs.String("desc", "", "restrict to harness entries whose description contains this")
	if len(args) < 1 {
		fmt.Fprintln(os.Stderr, "usage: verif check <property> [--tier quick|thorough]")
		return 2
	}
	prop := args[0]
	fs.Parse(args[1:])
	if *tierName == "" {
		*tierName = "quick"
	}
	seed, _ := strconv.ParseInt(os.Getenv("VERIF_SEED"), 10, 64)
	spec, ok := registry[prop]
	if !ok {
		fmt.Fprintf(os.Stderr, "no check registered for %s\n", prop)
		return 2
	}
	start := time.Now()
	os.MkdirAll(filepath.Join(verifDir, ".work"), 0o755)
	os.MkdirAll(filepath.Join(evidenceDir(), "replays"), 0o755)

	known := loadKnownFindings()
	sx.KnownFindingIDs = map[string]bool{}
	var knownIDs []string
	for _, k := range known {
		if k.Status == "known" {
			sx.KnownFindingIDs[k.ID] = true
			knownIDs = append(knownIDs, k.ID)
		}
	}

	// load all packages needed
	pkgSet := map[string]bool{}
	for _, h := range spec.Harnesses {
		pkgSet["./"+h.Pkg] = true
	}
	var patterns []string
	for p := range pkgSet {
		patterns = append(patterns, p)
	}
	sort.Strings(patterns)
	P, err := loadProgram(patterns)
	if err != nil {
		fmt.Fprintf(os.Stderr, "LOAD-ERROR: %v\n", err)
		writeEvidence(prop, *tierName, seed, nil, spec, nil, 0, 0, time.Since(start), []string{"load error: " + err.Error()}, nil)
		return 2
	}

	exit := 0
	inconclusive := []string{}
	var hev []harnessEvidence
	var samples []any
	fnAll := map[string]sx.FnStat{}
	totalViol := 0
	totalValidated := 0
	var knownLines []string
	seenViol := map[string]bool{}

	for _, h := range spec.Harnesses {
		tier := h.Quick
		if *tierName == "thorough" {
			tier = h.Thorough
			if tier == nil {
				tier = h.Quick
			}
		}
		if tier == nil {
			continue
		}
		if *only != "" && !strings.Contains(h.Func, *only) {
			continue
		}
		if *descOnly != "" && !strings.Contains(h.Desc, *descOnly) {
			continue
		}
		sx.Params = tier.Params
		cfg := sx.HarnessCfg{Pkg: sx.RepoModule + "/" + h.Pkg, Func: h.Func, Workers: *workers, MaxPaths: tier.MaxPaths,
			LoopBound: tier.LoopBound, MaxInstr: tier.MaxInstr, MaxDeviations: tier.Deviations,
			SolverTimeoutMS: tier.TimeoutMS, Solver: h.Solver, StopAfterViolations: 6, SampleModels: tier.Samples, Seed: seed,
			DumpDir: filepath.Join(verifDir, ".work", "unknown")}
		if tier.DeadlineS > 0 {
			cfg.Deadline = time.Duration(tier.DeadlineS) * time.Second
		}
		if cfg.SampleModels == 0 {
			cfg.SampleModels = 4
		}
		res := sx.Explore(P, cfg)
		he := harnessEvidence{Harness: h.Pkg + "." + h.Func, Desc: h.Desc, Bounds: h.Bounds, Params: tier.Params, Paths: res.Paths, ByStatus: res.ByStatus,
			Transitions: res.Transitions, Obligations: res.Obligations, Discharged: res.Discharged, Covers: res.Covers,
			Asserts: res.AssertsSeen, RepoInstr: res.RepoInstr, MaxPathInstr: res.MaxPathInstr, Problems: res.Problems, WallS: res.Wall.Seconds(),
			Solver: map[string]any{"queries": res.Solver.Queries, "sat": res.Solver.Sat, "unsat": res.Solver.Unsat, "unknown": res.Solver.Unknown,
				"fallback_queries": res.Solver.Fallback, "restarts": res.Solver.Restarts, "solve_time_s": res.Solver.SolveTime.Seconds()}}
		for f, st := range res.Functions {
			o := fnAll[f]
			o.Calls += st.Calls
			o.Instr = st.Instr
			fnAll[f] = o
		}

		// native replay of candidate violations and of sampled passing paths
		var cases []ReplayCase
		perLabel := map[string]int{}
		hasBound := false
		for k, v := range res.Violations {
			perLabel[v.Kind+"|"+v.Label]++
			if perLabel[v.Kind+"|"+v.Label] > 2 {
				continue // two witnesses per label are replayed
			}
			if v.Kind == "bound" || v.Kind == "deadlock" {
				hasBound = true
			}
			cases = append(cases, ReplayCase{ID: fmt.Sprintf("v%d", k), Harness: h.Func, Model: v.Model, Known: knownIDs})
		}
		for k, s := range res.Samples {
			cases = append(cases, ReplayCase{ID: fmt.Sprintf("s%d", k), Harness: h.Func, Model: s.Model, Known: knownIDs})
		}
		for i := range cases {
			cases[i].Params = tier.Params
		}
		watchdog := 120 * time.Second
		if hasBound {
			watchdog = 10 * time.Second // termination harness: a native run still going after 10 s is the hang
		}
		outcomes, rerr := nativeReplay(h.Pkg, cases, watchdog, h.Isolate || hasBound)
		if rerr != nil {
			inconclusive = append(inconclusive, h.Func+": native replay failed: "+rerr.Error())
		}
		// the native build iterates maps in random order: an assertion that did not
		// fail is retried a few times before it counts as not reproduced
		for attempt := 0; attempt < 4 && rerr == nil; attempt++ {
			var again []ReplayCase
			for k, v := range res.Violations {
				id := fmt.Sprintf("v%d", k)
				if o, ok := outcomes[id]; ok && v.Kind == "assert" && o.Outcome == "ok" {
					again = append(again, ReplayCase{ID: id, Harness: h.Func, Model: v.Model, Known: knownIDs, Params: tier.Params})
				}
			}
			if len(again) == 0 {
				break
			}
			more, err2 := nativeReplay(h.Pkg, again, watchdog, false)
			if err2 != nil {
				break
			}
			for id, o := range more {
				outcomes[id] = o
			}
		}
		for k, v := range res.Violations {
			o, ok := outcomes[fmt.Sprintf("v%d", k)]
			if !ok {
				continue
			}
			reproduced := false
			switch v.Kind {
			case "assert":
				reproduced = o.Outcome == "assert" && o.Detail == v.Label
			case "panic":
				reproduced = o.Outcome == "panic" || (o.Outcome == "missing" && (strings.Contains(o.Detail, "panic:") || strings.Contains(o.Detail, "fatal error")))
			case "bound", "deadlock":
				reproduced = o.Outcome == "timeout" || (o.Outcome == "missing" && strings.Contains(o.Detail, "fatal error"))
			}
			if reproduced {
				totalValidated++
				he.Validated++
				// is this the witness harness of a known finding?
				if kf := knownFor(known, prop, h.Func); kf != nil {
					line := fmt.Sprintf("KNOWN-FINDING: property=%s %s [%s]", prop, kf.What, kf.ID)
					if !contains(knownLines, line) {
						knownLines = append(knownLines, line)
					}
					continue
				}
				he.Violations++
				totalViol++
				if seenViol[h.Func+"|"+v.Label] {
					continue
				}
				seenViol[h.Func+"|"+v.Label] = true
				rp := filepath.Join(evidenceDir(), "replays", fmt.Sprintf("%s-%s-%d.json", prop, h.Func, k))
				os.MkdirAll(filepath.Dir(rp), 0o755)
				rb, _ := json.MarshalIndent(map[string]any{"property": prop, "pkg": h.Pkg, "harness": h.Func, "kind": v.Kind, "label": v.Label,
					"msg": v.Msg, "site": v.Site, "model": v.Model, "params": tier.Params, "known": knownIDs, "native_outcome": o}, "", " ")
				os.WriteFile(rp, rb, 0o644)
				fmt.Printf("VIOLATION property=%s replay=%s\n", prop, rp)
				fmt.Printf("  harness=%s kind=%s label=%s %s %s\n", h.Func, v.Kind, v.Label, v.Msg, v.Site)
				exit = 1
				if len(samples) < 12 {
					samples = append(samples, map[string]any{"harness": h.Func, "violation": v.Label, "kind": v.Kind, "model": v.Model, "native": o.Outcome + ":" + o.Detail})
				}
			} else {
				inconclusive = append(inconclusive, fmt.Sprintf("ENGINE-MISMATCH %s: %s %q not reproduced natively (native outcome %s %q) model=%v", h.Func, v.Kind, v.Label, o.Outcome, o.Detail, v.Model))
			}
		}
		for k, s := range res.Samples {
			o, ok := outcomes[fmt.Sprintf("s%d", k)]
			if !ok {
				continue
			}
			if o.Outcome != "ok" {
				inconclusive = append(inconclusive, fmt.Sprintf("ENGINE-MISMATCH %s: passing path fails natively (%s %q) model=%v", h.Func, o.Outcome, o.Detail, s.Model))
				continue
			}
			if strings.Join(o.Obs, "|") != strings.Join(s.Observations, "|") {
				inconclusive = append(inconclusive, fmt.Sprintf("ENGINE-MISMATCH %s: observations differ: engine %v native %v model=%v", h.Func, s.Observations, o.Obs, s.Model))
				continue
			}
			totalValidated++
			he.Validated++
			if len(samples) < 12 && k < 2 {
				samples = append(samples, map[string]any{"harness": h.Func, "decisions": s.Decisions, "model": s.Model, "observations": s.Observations, "status": s.Status})
			}
		}

		// a harness that is itself a known-finding witness must not count its
		// own problems; everything else must be clean
		if knownFor(known, prop, h.Func) == nil {
			if res.Incomplete {
				inconclusive = append(inconclusive, h.Func+": exploration incomplete (path/deadline budget)")
			}
			for _, pr := range res.Problems {
				if strings.HasPrefix(pr, "init: ") {
					continue
				}
				inconclusive = append(inconclusive, h.Func+": "+pr)
			}
			if len(res.AssertsSeen) == 0 && res.ByStatus["ok"] == 0 {
				inconclusive = append(inconclusive, h.Func+": vacuous (no assertion reached, no path completed)")
			} else if len(res.AssertsSeen) == 0 && !strings.Contains(h.Desc, "no-panic") {
				inconclusive = append(inconclusive, h.Func+": vacuous (no assertion reached)")
			}
		}
		hev = append(hev, he)
		fmt.Fprintf(os.Stderr, "[%s] %s: paths=%d %v obligations=%d/%d violations=%d validated=%d wall=%.1fs\n", prop, h.Func, res.Paths, res.ByStatus, res.Discharged, res.Obligations, he.Violations, he.Validated, res.Wall.Seconds())
	}
	for _, l := range knownLines {
		fmt.Println(l)
	}
	if exit == 0 && len(inconclusive) > 0 {
		exit = 2
		for _, m := range inconclusive {
			fmt.Fprintln(os.Stderr, "INCONCLUSIVE:", m)
		}
	}
	writeEvidence(prop, *tierName, seed, hev, spec, samples, totalValidated, totalViol, time.Since(start), inconclusive, fnAll)
	if exit == 0 {
		fmt.Printf("OK property=%s tier=%s\n", prop, *tierName)
	}
	return exit
}

func contains(l []string, s string) bool {
	for _, x := range l {
		if x == s {
			return true
		}
	}
	return false
}

func knownFor(known []KnownFinding, prop, harness string) *KnownFinding {
	for i := range known {
		if known[i].Property == prop && known[i].Status == "known" && known[i].Harness == harness {
			return &known[i]
		}
	}
	return nil
}

func writeEvidence(prop, tier string, seed int64, hev []harnessEvidence, spec CheckSpec, samples []any, validated, violations int, wall time.Duration, inconclusive []string, fns map[string]sx.FnStat) {
	states, transitions, obligations, discharged := 0, 0, 0, 0
	var queries int
	var solveS float64
	for _, h := range hev {
		states += h.Paths
		transitions += h.Transitions
		obligations += h.Obligations
		discharged += h.Discharged
		if q, ok := h.Solver["queries"].(int); ok {
			queries += q
		}
		if s, ok := h.Solver["solve_time_s"].(float64); ok {
			solveS += s
		}
	}
	if len(samples) == 0 {
		samples = []any{map[string]any{"note": "no path completed"}}
	}
	type fnEntry struct {
		Name  string `json:"name"`
		Calls int    `json:"calls"`
		Instr int    `json:"ssa_instructions"`
	}
	var fl []fnEntry
	for n, s := range fns {
		fl = append(fl, fnEntry{n, s.Calls, s.Instr})
	}
	sort.Slice(fl, func(i, j int) bool { return fl[i].Name < fl[j].Name })
	ev := map[string]any{
		"property_id": prop,
		"tier":        tier,
		"seed":        seed,
		"level":       "model_checking",
		"coverage": map[string]any{
			"states":                        states,
			"transitions":                   transitions,
			"traces_validated_against_impl": validated,
			"samples":                       samples,
			"obligations":                   obligations,
			"discharged":                    discharged,
			"explanation":                   "states = feasible paths of the real code explored symbolically (go/ssa executor + z3); transitions = solver-decided branch/concretisation decisions; obligations = assertion VCs (PC ∧ ¬assertion) sent to the solver or folded concretely; traces_validated = solver models (violations and sampled passing paths) replayed against the natively compiled code with agreeing outcome and observations",
			"functions_encoded":             fl,
			"harnesses":                     hev,
			"solver_queries":                queries,
			"solver_time_s":                 solveS,
			"stubs":                         spec.Stubs,
			"outside_the_bound":             spec.Outside,
			"inconclusive":                  inconclusive,
			"exhaustive":                    false,
		},
		"assumptions": append([]string{"engine operator semantics and stubs (DESIGN.md 2.4) as validated by native replay", "go/ssa lowering (x/tools v0.50.0)", "z3 4.8.12 (fallback z3 5.1.0, cvc5 1.0) verdicts"}, spec.Assumptions...),
		"wall_s":      wall.Seconds(),
		"violations":  violations,
	}
	b, _ := json.MarshalIndent(ev, "", " ")
	os.WriteFile(filepath.Join(evidenceDir(), prop+".json"), b, 0o644)
}

// cmdReplay re-runs a stored replay file natively and reports the outcome.
func cmdReplay(args []string) int {
	if len(args) < 1 {
		fmt.Fprintln(os.Stderr, "usage: verif replay <file>")
		return 2
	}
	b, err := os.ReadFile(args[0])
	if err != nil {
		fmt.Fprintln(os.Stderr, err)
		return 2
	}
	var rf struct {
		Property string            `json:"property"`
		Pkg      string            `json:"pkg"`
		Harness  string            `json:"harness"`
		Kind     string            `json:"kind"`
		Label    string            `json:"label"`
		Model    map[string]uint64 `json:"model"`
		Params   map[string]int    `json:"params"`
		Known    []string          `json:"known"`
	}
	if err := json.Unmarshal(b, &rf); err != nil {
		fmt.Fprintln(os.Stderr, err)
		return 2
	}
	os.MkdirAll(filepath.Join(verifDir, ".work"), 0o755)
	out, err := nativeReplay(rf.Pkg, []ReplayCase{{ID: "r", Harness: rf.Harness, Model: rf.Model, Params: rf.Params, Known: rf.Known}}, 120*time.Second, true)
	if err != nil {
		fmt.Fprintln(os.Stderr, err)
		return 2
	}
	o := out["r"]
	fmt.Printf("native outcome: %s %s\n", o.Outcome, o.Detail)
	if o.Outcome == "ok" || o.Outcome == "assume-failed" {
		fmt.Println("not reproduced")
		return 0
	}
	fmt.Printf("VIOLATION property=%s replay=%s\n", rf.Property, args[0])
	return 1
}

// evidenceDir: /verif/evidence; a run against a scratch tree (VERIF_REPO, used
// for trying seeded changes) writes elsewhere so that committed evidence
// always describes /repo.
func evidenceDir() string {
	if os.Getenv("VERIF_REPO") != "" {
		return filepath.Join(os.TempDir(), "verif-scratch-evidence")
	}
	return filepath.Join(verifDir, "evidence")
}
