package sx

// Intrinsics: the harness API (package zzverif) and environment stubs.

import (
	"fmt"
	"go/token"
	"go/types"
	"math"
	"strings"
)

var intrinsics = map[string]intrinsic{}

// Params are the tier-specific harness parameters (set by the CLI).
var Params = map[string]int{}

// KnownFindingIDs is the set of finding ids with status "known" (set by the CLI).
var KnownFindingIDs = map[string]bool{}

const zz = RepoModule + "/internal/zzverif."

// observation is a value the harness exposes for translation validation.
type observation struct {
	label string
	v     value
}

func (o observation) render(model map[string]uint64, memo map[*Term]uint64) string {
	return o.label + "=" + renderValue(o.v, model, memo)
}

func renderValue(v value, model map[string]uint64, memo map[*Term]uint64) string {
	switch v := v.(type) {
	case sym:
		c := v.t.Eval(model, memo)
		if v.t.w == 0 {
			return fmt.Sprint(c != 0)
		}
		return fmt.Sprintf("%d", c)
	case iface:
		if b, ok := v.t.Underlying().(*types.Basic); ok && b.Info()&types.IsInteger != 0 && b.Info()&types.IsUnsigned == 0 {
			if s, ok := v.v.(sym); ok {
				return fmt.Sprintf("%d", sext64(s.t.Eval(model, memo), s.t.w))
			}
		}
		return renderValue(v.v, model, memo)
	case symString:
		b := make([]byte, len(v))
		for i, e := range v {
			switch e := e.(type) {
			case uint8:
				b[i] = e
			case sym:
				b[i] = byte(e.t.Eval(model, memo))
			}
		}
		return fmt.Sprintf("%q", string(b))
	case string:
		return fmt.Sprintf("%q", v)
	case []value:
		var sb strings.Builder
		sb.WriteByte('[')
		for i, e := range v {
			if i > 0 {
				sb.WriteByte(' ')
			}
			sb.WriteString(renderValue(e, model, memo))
		}
		sb.WriteByte(']')
		return sb.String()
	case bool, int, int8, int16, int32, int64, uint, uint8, uint16, uint32, uint64, uintptr:
		return fmt.Sprint(v)
	}
	return toString(v)
}

func argString(v value) string {
	s, ok := v.(string)
	if !ok {
		panic(pathEnd{StUnsupported, "harness API needs a concrete string argument"})
	}
	return s
}

func (p *pathState) noInit(what string) {
	if p.initPhase {
		panic(pathEnd{StUnsupported, what + " during package initialisation"})
	}
}

func init() {
	nondet := func(w uint8, t types.Type) intrinsic {
		return func(fr *frame, args []value) value {
			fr.p.noInit("nondet")
			return sym{fr.p.newVar(argString(args[0]), w)}
		}
	}
	intrinsics[zz+"U8"] = nondet(8, nil)
	intrinsics[zz+"U16"] = nondet(16, nil)
	intrinsics[zz+"U32"] = nondet(32, nil)
	intrinsics[zz+"U64"] = nondet(64, nil)
	intrinsics[zz+"Int"] = nondet(64, nil)
	intrinsics[zz+"I64"] = nondet(64, nil)
	intrinsics[zz+"I32"] = nondet(32, nil)
	intrinsics[zz+"Bool"] = nondet(0, nil)

	// Range(name, lo, hi): lo + zero-extended narrow variable
	intrinsics[zz+"Range"] = func(fr *frame, args []value) value {
		p := fr.p
		lo, hi := asInt64(args[1]), asInt64(args[2])
		if hi < lo {
			panic(pathEnd{StAssumeFalse, "empty range"})
		}
		if hi == lo {
			return int(lo)
		}
		span := uint64(hi - lo)
		w := uint8(1)
		for w < 64 && (uint64(1)<<w)-1 < span {
			w++
		}
		v := p.newVar(argString(args[0]), w)
		if (uint64(1)<<w)-1 != span {
			p.assume(p.tt.Cmp(OpUle, v, p.tt.Const(w, span)))
		}
		return sym{p.tt.Bin(OpAdd, p.tt.Const(64, uint64(lo)), p.tt.ZExt(v, 64))}
	}
	intrinsics[zz+"Choice"] = func(fr *frame, args []value) value {
		p := fr.p
		p.noInit("Choice")
		n := int(asInt64(args[1]))
		name := p.nondetName(argString(args[0]))
		c := p.decideChoice(n)
		p.nondets = append(p.nondets, NondetVar{Name: name, Width: 64, IsConc: true, Conc: uint64(c)})
		return c
	}
	intrinsics[zz+"Bytes"] = func(fr *frame, args []value) value {
		p := fr.p
		n := int(asInt64(args[1]))
		base := argString(args[0])
		r := make([]value, n)
		for i := range r {
			r[i] = sym{p.newVar(fmt.Sprintf("%s[%d]", base, i), 8)}
		}
		return r
	}
	intrinsics[zz+"Assume"] = func(fr *frame, args []value) value {
		switch c := args[0].(type) {
		case bool:
			if !c {
				panic(pathEnd{StAssumeFalse, "assumption false"})
			}
		case sym:
			fr.p.assume(c.t)
		}
		return nil
	}
	intrinsics[zz+"Assert"] = func(fr *frame, args []value) value {
		p := fr.p
		label := argString(args[1])
		p.obligations++
		p.assertsSeen[label]++
		switch c := args[0].(type) {
		case bool:
			if c {
				p.discharged++
				return nil
			}
			r, m := p.model(nil)
			if r != Sat {
				panic(pathEnd{StInconclusive, "no model for concretely failed assertion " + label})
			}
			p.pendingViolation = &Violation{Kind: "assert", Label: label, Model: m, Site: callerPos(fr), Decisions: append([]int64(nil), p.decisions...)}
			panic(pathEnd{StViolation, label})
		case sym:
			r, m := p.model(p.tt.BNot(c.t))
			switch r {
			case Unsat:
				p.discharged++
				return nil
			case Sat:
				p.pendingViolation = &Violation{Kind: "assert", Label: label, Model: m, Site: callerPos(fr), Decisions: append([]int64(nil), p.decisions...)}
				panic(pathEnd{StViolation, label})
			default:
				p.unknowns++
				panic(pathEnd{StInconclusive, "solver unknown on assertion " + label})
			}
		}
		return nil
	}
	intrinsics[zz+"Exists"] = func(fr *frame, args []value) value {
		p := fr.p
		label := argString(args[1])
		p.obligations++
		p.assertsSeen[label]++
		switch c := args[0].(type) {
		case bool:
			if c {
				p.discharged++
				return nil
			}
		case sym:
			switch p.solver.Check(p.tt, c.t) {
			case Sat:
				p.discharged++
				return nil
			case Unknown:
				p.unknowns++
				panic(pathEnd{StInconclusive, "solver unknown on existential obligation " + label})
			}
		}
		r, m := p.model(nil)
		if r != Sat {
			panic(pathEnd{StInconclusive, "no model for failed existential obligation " + label})
		}
		p.pendingViolation = &Violation{Kind: "assert", Label: label, Model: m, Site: callerPos(fr), Decisions: append([]int64(nil), p.decisions...)}
		panic(pathEnd{StViolation, label})
	}
	intrinsics[zz+"Cover"] = func(fr *frame, args []value) value {
		fr.p.covers[argString(args[0])]++
		return nil
	}
	intrinsics[zz+"LoopBound"] = func(fr *frame, args []value) value {
		fr.p.loopBound = int(asInt64(args[0]))
		return nil
	}
	intrinsics[zz+"MaxInstr"] = func(fr *frame, args []value) value {
		fr.p.maxInstr = asInt64(args[0])
		return nil
	}
	intrinsics[zz+"ExpectPanic"] = func(fr *frame, args []value) value {
		fr.p.expectPanic = argString(args[0])
		return nil
	}
	intrinsics[zz+"BoundIsViolation"] = func(fr *frame, args []value) value {
		fr.p.boundIsViolation = true
		return nil
	}
	intrinsics[zz+"DeadlockIsViolation"] = func(fr *frame, args []value) value {
		fr.p.deadlockIsViolation = true
		return nil
	}
	intrinsics[zz+"Observe"] = func(fr *frame, args []value) value {
		fr.p.obs = append(fr.p.obs, observation{argString(args[0]), args[1]})
		return nil
	}
	intrinsics[zz+"Symbolic"] = func(fr *frame, args []value) value { return true }
	intrinsics[zz+"Yield"] = func(fr *frame, args []value) value {
		yield(fr)
		return nil
	}
	intrinsics[zz+"And"] = func(fr *frame, args []value) value {
		var r value = true
		for _, a := range args[0].([]value) {
			r = fr.p.boolAnd(r, a)
		}
		return r
	}
	intrinsics[zz+"Or"] = func(fr *frame, args []value) value {
		var r value = false
		for _, a := range args[0].([]value) {
			r = fr.p.boolOr(r, a)
		}
		return r
	}
	intrinsics[zz+"Not"] = func(fr *frame, args []value) value { return fr.p.boolNot(args[0]) }
	intrinsics[zz+"Implies"] = func(fr *frame, args []value) value {
		return fr.p.boolOr(fr.p.boolNot(args[0]), args[1])
	}
	intrinsics[zz+"Iff"] = func(fr *frame, args []value) value {
		p := fr.p
		return mkBool(p.tt.BEq(p.termOf(args[0]), p.termOf(args[1])))
	}
	ite := func(fr *frame, args []value) value {
		p := fr.p
		switch c := args[0].(type) {
		case bool:
			if c {
				return args[1]
			}
			return args[2]
		case sym:
			a, b := args[1], args[2]
			if !isScalar(a) {
				panic(pathEnd{StUnsupported, "Ite on non-scalar values"})
			}
			t := p.tt.Ite(c.t, p.termOf(a), p.termOf(b))
			return retype(a, b, t)
		}
		panic("Ite: bad condition")
	}
	for _, n := range []string{"Ite", "IteU64", "IteInt", "IteU8", "IteBool", "IteU32", "IteU16"} {
		intrinsics[zz+n] = ite
	}
	intrinsics[zz+"Concretize"] = func(fr *frame, args []value) value {
		if s, ok := args[0].(sym); ok {
			v := fr.p.decideValue(s.t, 4096)
			return int(sext64(v, s.t.w))
		}
		return args[0]
	}
	intrinsics[zz+"Override"] = func(fr *frame, args []value) value {
		name := argString(args[0])
		fnv := args[1].(iface).v
		if fr.i.overrides == nil {
			fr.i.overrides = map[string]value{}
		}
		fr.i.overrides[name] = fnv
		// flush cached intrinsics is unnecessary: overrides are consulted first
		return nil
	}
	intrinsics[zz+"Param"] = func(fr *frame, args []value) value {
		if v, ok := Params[argString(args[0])]; ok {
			return v
		}
		return int(asInt64(args[1]))
	}
	intrinsics[zz+"PermuteMaps"] = func(fr *frame, args []value) value {
		fr.p.permuteMaps = args[0].(bool)
		return nil
	}
	intrinsics[zz+"Known"] = func(fr *frame, args []value) value {
		return KnownFindingIDs[argString(args[0])]
	}
	intrinsics[zz+"Replaying"] = func(fr *frame, args []value) value { return false }

	// --- math/bits ---------------------------------------------------
	bitsUn := func(w uint8, f func(tt *TermTable, a *Term) *Term, native func(uint64) int) intrinsic {
		return func(fr *frame, args []value) value {
			if s, ok := args[0].(sym); ok {
				r := f(fr.p.tt, s.t)
				return mkval(types.Typ[types.Int], fr.p.tt.ZExt(r, 64))
			}
			return native(asUint64Any(args[0]) & mask(w))
		}
	}
	for _, e := range []struct {
		suffix string
		w      uint8
	}{{"", 64}, {"64", 64}, {"32", 32}, {"16", 16}, {"8", 8}} {
		w := e.w
		intrinsics["math/bits.OnesCount"+e.suffix] = bitsUn(w, (*TermTable).PopCount, func(x uint64) int { return popcount(x) })
		intrinsics["math/bits.TrailingZeros"+e.suffix] = bitsUn(w, (*TermTable).TrailingZeros, func(x uint64) int {
			if x == 0 {
				return int(w)
			}
			n := 0
			for x&1 == 0 {
				x >>= 1
				n++
			}
			return n
		})
		intrinsics["math/bits.LeadingZeros"+e.suffix] = bitsUn(w, (*TermTable).LeadingZeros, func(x uint64) int {
			n := 0
			for i := int(w) - 1; i >= 0 && x&(1<<uint(i)) == 0; i-- {
				n++
			}
			return n
		})
		intrinsics["math/bits.Len"+e.suffix] = bitsUn(w, func(tt *TermTable, a *Term) *Term {
			return tt.Bin(OpSub, tt.Const(a.w, uint64(a.w)), tt.LeadingZeros(a))
		}, func(x uint64) int {
			n := 0
			for x != 0 {
				x >>= 1
				n++
			}
			return n
		})
	}

	// --- math -------------------------------------------------------
	intrinsics["math.Float64bits"] = func(fr *frame, args []value) value { return math.Float64bits(args[0].(float64)) }
	intrinsics["math.Float64frombits"] = func(fr *frame, args []value) value { return math.Float64frombits(args[0].(uint64)) }
	intrinsics["math.Float32bits"] = func(fr *frame, args []value) value { return math.Float32bits(args[0].(float32)) }
	intrinsics["math.Float32frombits"] = func(fr *frame, args []value) value { return math.Float32frombits(args[0].(uint32)) }
	for name, f := range map[string]func(float64) float64{"math.Abs": math.Abs, "math.Floor": math.Floor, "math.Ceil": math.Ceil,
		"math.Sqrt": math.Sqrt, "math.Log": math.Log, "math.Exp": math.Exp, "math.Trunc": math.Trunc, "math.Log2": math.Log2, "math.Round": math.Round} {
		f := f
		intrinsics[name] = func(fr *frame, args []value) value { return f(args[0].(float64)) }
	}
	intrinsics["math.Inf"] = func(fr *frame, args []value) value { return math.Inf(int(asInt64(args[0]))) }
	intrinsics["math.NaN"] = func(fr *frame, args []value) value { return math.NaN() }
	intrinsics["math.IsNaN"] = func(fr *frame, args []value) value { return math.IsNaN(args[0].(float64)) }
	intrinsics["math.IsInf"] = func(fr *frame, args []value) value {
		return math.IsInf(args[0].(float64), int(asInt64(args[1])))
	}
	intrinsics["math.Pow"] = func(fr *frame, args []value) value { return math.Pow(args[0].(float64), args[1].(float64)) }
	intrinsics["math.Mod"] = func(fr *frame, args []value) value { return math.Mod(args[0].(float64), args[1].(float64)) }
	intrinsics["math.Ldexp"] = func(fr *frame, args []value) value {
		return math.Ldexp(args[0].(float64), int(asInt64(args[1])))
	}
	intrinsics["math.Frexp"] = func(fr *frame, args []value) value {
		f, e := math.Frexp(args[0].(float64))
		return tuple{f, e}
	}
	intrinsics["math.Modf"] = func(fr *frame, args []value) value {
		a, b := math.Modf(args[0].(float64))
		return tuple{a, b}
	}

	// --- logging: empty bodies -------------------------------------
	nop := func(fr *frame, args []value) value { return nil }
	for _, n := range []string{"log.Printf", "log.Println", "log.Print", "(*log.Logger).Printf", "(*log.Logger).Println", "(*log.Logger).Print",
		"runtime/debug.PrintStack", "runtime.GC", "runtime.Gosched", "runtime.KeepAlive", "runtime.SetFinalizer",
		"internal/race.Acquire", "internal/race.Release", "internal/race.ReleaseMerge", "internal/race.Disable", "internal/race.Enable",
		"internal/race.Read", "internal/race.Write", "internal/race.ReadRange", "internal/race.WriteRange",
		"(*runtime.Pinner).Pin", "(*runtime.Pinner).Unpin"} {
		intrinsics[n] = nop
	}
	for _, n := range []string{"log.Fatalf", "log.Fatal", "log.Fatalln", "log.Panicf", "log.Panic", "os.Exit"} {
		name := n
		intrinsics[n] = func(fr *frame, args []value) value {
			panic(targetPanic{iface{types.Typ[types.String], name + " called"}})
		}
	}
	// flag definitions: a fresh variable holding the default value
	for _, n := range []string{"Bool", "Int", "Int64", "Uint", "Uint64", "String", "Duration", "Float64"} {
		intrinsics["flag."+n] = func(fr *frame, args []value) value {
			cell := new(value)
			*cell = args[1]
			return cell
		}
	}
	// time.Local = UTC
	intrinsics["time.initLocal"] = func(fr *frame, args []value) value {
		tp := fr.i.P.Pkgs["time"]
		utc, loc := fr.i.globals[tp.Var("utcLoc")], fr.i.globals[tp.Var("localLoc")]
		if utc != nil && loc != nil {
			t := deref(tp.Var("utcLoc").Type())
			store(t, *loc2ptr(loc), load(t, *loc2ptr(utc)))
		}
		return nil
	}
	// the clock: deterministic, strictly increasing instants (1.5 ms per call)
	intrinsics["time.runtimeNow"] = func(fr *frame, args []value) value {
		fr.p.clock++
		ns := fr.p.clock * 1_500_000
		return tuple{int64(1700000100) + ns/1_000_000_000, int32(ns % 1_000_000_000), int64(1_000_000_000) + ns}
	}
	intrinsics["time.now"] = intrinsics["time.runtimeNow"]
	intrinsics["time.Sleep"] = func(fr *frame, args []value) value {
		fr.p.clock += asInt64(args[0])/1_500_000 + 1
		yield(fr)
		return nil
	}
	intrinsics["time.runtimeNano"] = func(fr *frame, args []value) value { return int64(1) }
	intrinsics["syscall.runtime_envs"] = func(fr *frame, args []value) value { return []value(nil) }
	intrinsics["os.runtime_args"] = func(fr *frame, args []value) value { return []value{"pkappa2"} }
	intrinsics["os.NewFile"] = func(fr *frame, args []value) value { return (*value)(nil) }
	intrinsics["os.Getenv"] = func(fr *frame, args []value) value { return "" }
	intrinsics["os.LookupEnv"] = func(fr *frame, args []value) value { return tuple{"", false} }
	intrinsics["internal/godebug.New"] = func(fr *frame, args []value) value { return (*value)(nil) }
	intrinsics["(*internal/godebug.Setting).Value"] = func(fr *frame, args []value) value { return "" }
	intrinsics["(*internal/godebug.Setting).IncNonDefault"] = nop
	intrinsics["internal/bytealg.MakeNoZero"] = func(fr *frame, args []value) value {
		n := int(asInt64(args[0]))
		sl := make([]value, n)
		for i := range sl {
			sl[i] = uint8(0)
		}
		return sl
	}
	intrinsics["runtime.GOMAXPROCS"] = func(fr *frame, args []value) value { return 16 }
	intrinsics["runtime.NumCPU"] = func(fr *frame, args []value) value { return 16 }
	intrinsics["runtime.NumGoroutine"] = func(fr *frame, args []value) value { return len(fr.p.gs) }
}

func popcount(x uint64) int {
	n := 0
	for x != 0 {
		x &= x - 1
		n++
	}
	return n
}

func asUint64Any(v value) uint64 {
	switch v := v.(type) {
	case int, int8, int16, int32, int64:
		return uint64(asInt64(v))
	}
	return asUint64(v)
}

func isScalar(v value) bool {
	switch v.(type) {
	case sym, bool, int, int8, int16, int32, int64, uint, uint8, uint16, uint32, uint64, uintptr:
		return true
	}
	return false
}

// retype wraps term t with the dynamic kind of the concrete operand among a, b.
func retype(a, b value, t *Term) value {
	if t.op != OpConst {
		return sym{t}
	}
	for _, v := range []value{a, b} {
		switch v.(type) {
		case bool:
			return t.c != 0
		case int:
			return int(t.c)
		case int8:
			return int8(t.c)
		case int16:
			return int16(t.c)
		case int32:
			return int32(t.c)
		case int64:
			return int64(t.c)
		case uint:
			return uint(t.c)
		case uint8:
			return uint8(t.c)
		case uint16:
			return uint16(t.c)
		case uint32:
			return uint32(t.c)
		case uint64:
			return t.c
		case uintptr:
			return uintptr(t.c)
		}
	}
	return sym{t}
}

// assume adds c to the path condition, ending the path if it is infeasible.
func (p *pathState) assume(c *Term) {
	if c.isTrue() {
		return
	}
	if c.isFalse() {
		panic(pathEnd{StAssumeFalse, "assumption false"})
	}
	if p.pos < len(p.prefix) {
		// replaying: feasibility was established when the prefix was produced
		p.addPC(c)
		return
	}
	switch p.solver.Check(p.tt, c) {
	case Unsat:
		panic(pathEnd{StAssumeFalse, "assumption infeasible"})
	case Unknown:
		p.unknowns++
	}
	p.addPC(c)
}

func callerPos(fr *frame) string {
	if fr.caller != nil && fr.caller.fn != nil {
		return fr.caller.fn.String() + fr.caller.curPos()
	}
	return ""
}

var _ = token.NoPos

func loc2ptr(p *value) **value { return &p }
