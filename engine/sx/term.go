package sx

// Symbolic terms: hash-consed bit-vector / boolean expressions with eager
// constant folding, SMT-LIB2 printing and concrete evaluation under a model.

import (
	"fmt"
	"math/bits"
	"strings"
)

type Op uint8

const (
	OpConst Op = iota
	OpVar
	// bit-vector ops (result width = w)
	OpAdd
	OpSub
	OpMul
	OpUDiv
	OpURem
	OpSDiv
	OpSRem
	OpAnd
	OpOr
	OpXor
	OpNot
	OpNeg
	OpShl
	OpLShr
	OpAShr
	OpConcat
	OpExtract // c = hi<<8 | lo
	OpZExt
	OpSExt
	OpIte // args: cond(bool), a, b ; w = width of a (0 for bool ite)
	// boolean results (w == 0)
	OpEq
	OpUlt
	OpUle
	OpSlt
	OpSle
	OpBNot
	OpBAnd
	OpBOr
	OpUF // uninterpreted function application, name = function, w = result width
)

var opNames = [...]string{
	OpAdd: "bvadd", OpSub: "bvsub", OpMul: "bvmul", OpUDiv: "bvudiv", OpURem: "bvurem",
	OpSDiv: "bvsdiv", OpSRem: "bvsrem", OpAnd: "bvand", OpOr: "bvor", OpXor: "bvxor",
	OpNot: "bvnot", OpNeg: "bvneg", OpShl: "bvshl", OpLShr: "bvlshr", OpAShr: "bvashr",
	OpConcat: "concat", OpIte: "ite", OpEq: "=", OpUlt: "bvult", OpUle: "bvule",
	OpSlt: "bvslt", OpSle: "bvsle", OpBNot: "not", OpBAnd: "and", OpBOr: "or",
}

// Term is an immutable expression node. w == 0 means Bool sort.
type Term struct {
	op   Op
	w    uint8
	c    uint64 // constant value (masked) / extract bounds
	name string
	args []*Term
	id   int
}

func (t *Term) IsConst() bool { return t.op == OpConst }
func (t *Term) Width() int    { return int(t.w) }

type termKey struct {
	op         Op
	w          uint8
	c          uint64
	name       string
	a0, a1, a2 int
}

// TermTable owns the hash-consing table of one path.
type TermTable struct {
	tab    map[termKey]*Term
	nextID int
	Vars   []*Term // declared variables in order of creation
	UFs    map[string]string
}

func NewTermTable() *TermTable {
	return &TermTable{tab: make(map[termKey]*Term), UFs: map[string]string{}}
}

func mask(w uint8) uint64 {
	if w >= 64 {
		return ^uint64(0)
	}
	return (uint64(1) << w) - 1
}

func sext64(v uint64, w uint8) int64 {
	if w >= 64 {
		return int64(v)
	}
	sh := 64 - uint(w)
	return int64(v<<sh) >> sh
}

func (tt *TermTable) mk(op Op, w uint8, c uint64, name string, args ...*Term) *Term {
	k := termKey{op: op, w: w, c: c, name: name, a0: -1, a1: -1, a2: -1}
	if len(args) > 0 {
		k.a0 = args[0].id
	}
	if len(args) > 1 {
		k.a1 = args[1].id
	}
	if len(args) > 2 {
		k.a2 = args[2].id
	}
	if len(args) <= 3 {
		if t, ok := tt.tab[k]; ok {
			return t
		}
	}
	t := &Term{op: op, w: w, c: c, name: name, args: args, id: tt.nextID}
	tt.nextID++
	if len(args) <= 3 {
		tt.tab[k] = t
	}
	return t
}

func (tt *TermTable) Const(w uint8, v uint64) *Term {
	if w == 0 {
		panic("Const: width 0")
	}
	return tt.mk(OpConst, w, v&mask(w), "")
}

func (tt *TermTable) Bool(b bool) *Term {
	if b {
		return tt.mk(OpConst, 0, 1, "")
	}
	return tt.mk(OpConst, 0, 0, "")
}

func (tt *TermTable) Var(name string, w uint8) *Term {
	k := termKey{op: OpVar, w: w, name: name, a0: -1, a1: -1, a2: -1}
	if t, ok := tt.tab[k]; ok {
		return t
	}
	t := tt.mk(OpVar, w, 0, name)
	tt.Vars = append(tt.Vars, t)
	return t
}

func (t *Term) isTrue() bool  { return t.op == OpConst && t.w == 0 && t.c == 1 }
func (t *Term) isFalse() bool { return t.op == OpConst && t.w == 0 && t.c == 0 }

func evalBin(op Op, w uint8, a, b uint64) uint64 {
	m := mask(w)
	switch op {
	case OpAdd:
		return (a + b) & m
	case OpSub:
		return (a - b) & m
	case OpMul:
		return (a * b) & m
	case OpUDiv:
		if b == 0 {
			return m
		}
		return a / b
	case OpURem:
		if b == 0 {
			return a
		}
		return a % b
	case OpSDiv:
		sa, sb := sext64(a, w), sext64(b, w)
		if sb == 0 {
			if sa >= 0 {
				return m
			}
			return 1
		}
		if sb == -1 {
			return uint64(-sa) & m
		}
		return uint64(sa/sb) & m
	case OpSRem:
		sa, sb := sext64(a, w), sext64(b, w)
		if sb == 0 {
			return a
		}
		if sb == -1 {
			return 0
		}
		return uint64(sa%sb) & m
	case OpAnd:
		return a & b
	case OpOr:
		return a | b
	case OpXor:
		return a ^ b
	case OpShl:
		if b >= uint64(w) {
			return 0
		}
		return (a << b) & m
	case OpLShr:
		if b >= uint64(w) {
			return 0
		}
		return a >> b
	case OpAShr:
		sa := sext64(a, w)
		if b >= uint64(w) {
			if sa < 0 {
				return m
			}
			return 0
		}
		return uint64(sa>>b) & m
	}
	panic("evalBin: bad op")
}

func evalCmp(op Op, w uint8, a, b uint64) bool {
	switch op {
	case OpEq:
		return a == b
	case OpUlt:
		return a < b
	case OpUle:
		return a <= b
	case OpSlt:
		return sext64(a, w) < sext64(b, w)
	case OpSle:
		return sext64(a, w) <= sext64(b, w)
	}
	panic("evalCmp: bad op")
}

// Bin builds a binary bit-vector operation.
func (tt *TermTable) Bin(op Op, a, b *Term) *Term {
	if a.w != b.w || a.w == 0 {
		panic(fmt.Sprintf("Bin %v: width mismatch %d vs %d", op, a.w, b.w))
	}
	w := a.w
	if a.op == OpConst && b.op == OpConst {
		return tt.Const(w, evalBin(op, w, a.c, b.c))
	}
	// local rewrites
	switch op {
	case OpAdd:
		if a.op == OpConst && a.c == 0 {
			return b
		}
		if b.op == OpConst && b.c == 0 {
			return a
		}
	case OpSub:
		if b.op == OpConst && b.c == 0 {
			return a
		}
		if a == b {
			return tt.Const(w, 0)
		}
	case OpMul:
		if a.op == OpConst && a.c == 0 || b.op == OpConst && b.c == 0 {
			return tt.Const(w, 0)
		}
		if a.op == OpConst && a.c == 1 {
			return b
		}
		if b.op == OpConst && b.c == 1 {
			return a
		}
	case OpAnd:
		if a.op == OpConst && a.c == 0 || b.op == OpConst && b.c == 0 {
			return tt.Const(w, 0)
		}
		if a.op == OpConst && a.c == mask(w) {
			return b
		}
		if b.op == OpConst && b.c == mask(w) {
			return a
		}
		if a == b {
			return a
		}
	case OpOr:
		if a.op == OpConst && a.c == 0 {
			return b
		}
		if b.op == OpConst && b.c == 0 {
			return a
		}
		if a == b {
			return a
		}
	case OpXor:
		if a.op == OpConst && a.c == 0 {
			return b
		}
		if b.op == OpConst && b.c == 0 {
			return a
		}
		if a == b {
			return tt.Const(w, 0)
		}
	case OpShl, OpLShr, OpAShr:
		if b.op == OpConst && b.c == 0 {
			return a
		}
		if a.op == OpConst && a.c == 0 {
			return a
		}
	}
	return tt.mk(op, w, 0, "", a, b)
}

func (tt *TermTable) Un(op Op, a *Term) *Term {
	if a.op == OpConst {
		switch op {
		case OpNot:
			return tt.Const(a.w, ^a.c)
		case OpNeg:
			return tt.Const(a.w, -a.c)
		}
	}
	if a.op == op { // double negation
		return a.args[0]
	}
	return tt.mk(op, a.w, 0, "", a)
}

func (tt *TermTable) Cmp(op Op, a, b *Term) *Term {
	if a.w != b.w {
		panic(fmt.Sprintf("Cmp %v: width mismatch %d vs %d", op, a.w, b.w))
	}
	if a.w == 0 {
		if op != OpEq {
			panic("Cmp: bool operands need OpEq")
		}
		return tt.BEq(a, b)
	}
	if a.op == OpConst && b.op == OpConst {
		return tt.Bool(evalCmp(op, a.w, a.c, b.c))
	}
	if a == b {
		switch op {
		case OpEq, OpUle, OpSle:
			return tt.Bool(true)
		default:
			return tt.Bool(false)
		}
	}
	if op == OpEq {
		if a.id > b.id {
			a, b = b, a
		}
		// zext(x) == const  with const beyond range -> false
		if b.op == OpConst && a.op == OpZExt && b.c > mask(a.args[0].w) {
			return tt.Bool(false)
		}
		if a.op == OpConst && b.op == OpZExt && a.c > mask(b.args[0].w) {
			return tt.Bool(false)
		}
	}
	if op == OpUlt && b.op == OpConst && b.c == 0 {
		return tt.Bool(false)
	}
	if op == OpUle && a.op == OpConst && a.c == 0 {
		return tt.Bool(true)
	}
	return tt.mk(op, 0, 0, "", a, b)
}

func (tt *TermTable) BNot(a *Term) *Term {
	if a.w != 0 {
		panic("BNot: not bool")
	}
	if a.op == OpConst {
		return tt.Bool(a.c == 0)
	}
	if a.op == OpBNot {
		return a.args[0]
	}
	return tt.mk(OpBNot, 0, 0, "", a)
}

func (tt *TermTable) BAnd(a, b *Term) *Term {
	if a.w != 0 || b.w != 0 {
		panic("BAnd: not bool")
	}
	if a.isFalse() || b.isFalse() {
		return tt.Bool(false)
	}
	if a.isTrue() {
		return b
	}
	if b.isTrue() {
		return a
	}
	if a == b {
		return a
	}
	return tt.mk(OpBAnd, 0, 0, "", a, b)
}

func (tt *TermTable) BOr(a, b *Term) *Term {
	if a.w != 0 || b.w != 0 {
		panic("BOr: not bool")
	}
	if a.isTrue() || b.isTrue() {
		return tt.Bool(true)
	}
	if a.isFalse() {
		return b
	}
	if b.isFalse() {
		return a
	}
	if a == b {
		return a
	}
	return tt.mk(OpBOr, 0, 0, "", a, b)
}

func (tt *TermTable) BEq(a, b *Term) *Term {
	if a.op == OpConst {
		if a.c == 1 {
			return b
		}
		return tt.BNot(b)
	}
	if b.op == OpConst {
		if b.c == 1 {
			return a
		}
		return tt.BNot(a)
	}
	if a == b {
		return tt.Bool(true)
	}
	if a.id > b.id {
		a, b = b, a
	}
	return tt.mk(OpEq, 0, 0, "", a, b)
}

func (tt *TermTable) Ite(c, a, b *Term) *Term {
	if c.w != 0 || a.w != b.w {
		panic("Ite: sort mismatch")
	}
	if c.isTrue() {
		return a
	}
	if c.isFalse() {
		return b
	}
	if a == b {
		return a
	}
	if a.w == 0 {
		if a.isTrue() && b.isFalse() {
			return c
		}
		if a.isFalse() && b.isTrue() {
			return tt.BNot(c)
		}
		if a.isTrue() {
			return tt.BOr(c, b)
		}
		if a.isFalse() {
			return tt.BAnd(tt.BNot(c), b)
		}
		if b.isTrue() {
			return tt.BOr(tt.BNot(c), a)
		}
		if b.isFalse() {
			return tt.BAnd(c, a)
		}
	}
	return tt.mk(OpIte, a.w, 0, "", c, a, b)
}

func (tt *TermTable) Extract(a *Term, hi, lo uint8) *Term {
	if hi < lo || hi >= a.w {
		panic("Extract: bad bounds")
	}
	w := hi - lo + 1
	if w == a.w {
		return a
	}
	if a.op == OpConst {
		return tt.Const(w, a.c>>lo)
	}
	if (a.op == OpZExt || a.op == OpSExt) && lo == 0 {
		in := a.args[0]
		if w == in.w {
			return in
		}
		if w < in.w {
			return tt.Extract(in, hi, 0)
		}
		if a.op == OpZExt {
			return tt.ZExt(in, w)
		}
		return tt.SExt(in, w)
	}
	if a.op == OpZExt && lo >= a.args[0].w {
		return tt.Const(w, 0)
	}
	return tt.mk(OpExtract, w, uint64(hi)<<8|uint64(lo), "", a)
}

func (tt *TermTable) ZExt(a *Term, w uint8) *Term {
	if w < a.w {
		panic("ZExt: shrinking")
	}
	if w == a.w {
		return a
	}
	if a.op == OpConst {
		return tt.Const(w, a.c)
	}
	if a.op == OpZExt {
		return tt.ZExt(a.args[0], w)
	}
	return tt.mk(OpZExt, w, 0, "", a)
}

func (tt *TermTable) SExt(a *Term, w uint8) *Term {
	if w < a.w {
		panic("SExt: shrinking")
	}
	if w == a.w {
		return a
	}
	if a.op == OpConst {
		return tt.Const(w, uint64(sext64(a.c, a.w)))
	}
	if a.op == OpZExt { // zero-extended value is non-negative
		return tt.ZExt(a.args[0], w)
	}
	return tt.mk(OpSExt, w, 0, "", a)
}

func (tt *TermTable) Concat(hi, lo *Term) *Term {
	w := hi.w + lo.w
	if hi.op == OpConst && lo.op == OpConst {
		return tt.Const(w, hi.c<<lo.w|lo.c)
	}
	if hi.op == OpConst && hi.c == 0 {
		return tt.ZExt(lo, w)
	}
	return tt.mk(OpConcat, w, 0, "", hi, lo)
}

// UF applies an uninterpreted function (declared on first use).
func (tt *TermTable) UF(name string, w uint8, args ...*Term) *Term {
	if _, ok := tt.UFs[name]; !ok {
		var sb strings.Builder
		fmt.Fprintf(&sb, "(declare-fun %s (", name)
		for i, a := range args {
			if i > 0 {
				sb.WriteByte(' ')
			}
			sb.WriteString(sortName(a.w))
		}
		fmt.Fprintf(&sb, ") %s)", sortName(w))
		tt.UFs[name] = sb.String()
	}
	// UF nodes with >3 args are not hash-consed; fine.
	return tt.mk(OpUF, w, 0, name, args...)
}

func sortName(w uint8) string {
	if w == 0 {
		return "Bool"
	}
	return fmt.Sprintf("(_ BitVec %d)", w)
}

func constLit(w uint8, c uint64) string {
	if w == 0 {
		if c != 0 {
			return "true"
		}
		return "false"
	}
	if w%4 == 0 {
		return fmt.Sprintf("#x%0*x", int(w/4), c)
	}
	return fmt.Sprintf("#b%0*b", int(w), c)
}

// smtName returns the SMT-LIB name of a variable.
func smtName(name string) string { return "|" + name + "|" }

// Ref returns the expression used to refer to t inside other definitions.
func (t *Term) ref() string {
	switch t.op {
	case OpConst:
		return constLit(t.w, t.c)
	case OpVar:
		return smtName(t.name)
	}
	return fmt.Sprintf("t%d", t.id)
}

// body returns the one-level SMT-LIB expression of a non-leaf term.
func (t *Term) body() string {
	var sb strings.Builder
	switch t.op {
	case OpExtract:
		fmt.Fprintf(&sb, "((_ extract %d %d) %s)", t.c>>8, t.c&0xff, t.args[0].ref())
	case OpZExt:
		fmt.Fprintf(&sb, "((_ zero_extend %d) %s)", t.w-t.args[0].w, t.args[0].ref())
	case OpSExt:
		fmt.Fprintf(&sb, "((_ sign_extend %d) %s)", t.w-t.args[0].w, t.args[0].ref())
	case OpUF:
		fmt.Fprintf(&sb, "(%s", t.name)
		for _, a := range t.args {
			sb.WriteByte(' ')
			sb.WriteString(a.ref())
		}
		sb.WriteByte(')')
	default:
		sb.WriteByte('(')
		sb.WriteString(opNames[t.op])
		for _, a := range t.args {
			sb.WriteByte(' ')
			sb.WriteString(a.ref())
		}
		sb.WriteByte(')')
	}
	return sb.String()
}

// Eval evaluates t under a model (variables missing from the model are 0).
func (t *Term) Eval(model map[string]uint64, memo map[*Term]uint64) uint64 {
	if t.op == OpConst {
		return t.c
	}
	if v, ok := memo[t]; ok {
		return v
	}
	var r uint64
	switch t.op {
	case OpVar:
		r = model[t.name] & maskOrBool(t.w)
	case OpAdd, OpSub, OpMul, OpUDiv, OpURem, OpSDiv, OpSRem, OpAnd, OpOr, OpXor, OpShl, OpLShr, OpAShr:
		r = evalBin(t.op, t.w, t.args[0].Eval(model, memo), t.args[1].Eval(model, memo))
	case OpNot:
		r = ^t.args[0].Eval(model, memo) & mask(t.w)
	case OpNeg:
		r = -t.args[0].Eval(model, memo) & mask(t.w)
	case OpConcat:
		r = t.args[0].Eval(model, memo)<<t.args[1].w | t.args[1].Eval(model, memo)
	case OpExtract:
		r = (t.args[0].Eval(model, memo) >> (t.c & 0xff)) & mask(t.w)
	case OpZExt:
		r = t.args[0].Eval(model, memo)
	case OpSExt:
		r = uint64(sext64(t.args[0].Eval(model, memo), t.args[0].w)) & mask(t.w)
	case OpIte:
		if t.args[0].Eval(model, memo) != 0 {
			r = t.args[1].Eval(model, memo)
		} else {
			r = t.args[2].Eval(model, memo)
		}
	case OpEq, OpUlt, OpUle, OpSlt, OpSle:
		a, b := t.args[0].Eval(model, memo), t.args[1].Eval(model, memo)
		w := t.args[0].w
		if w == 0 {
			w = 1
		}
		if evalCmp(t.op, w, a, b) {
			r = 1
		}
	case OpBNot:
		r = 1 - t.args[0].Eval(model, memo)
	case OpBAnd:
		r = t.args[0].Eval(model, memo) & t.args[1].Eval(model, memo)
	case OpBOr:
		r = t.args[0].Eval(model, memo) | t.args[1].Eval(model, memo)
	default:
		panic(fmt.Sprintf("Eval: unsupported op %d", t.op))
	}
	memo[t] = r
	return r
}

func maskOrBool(w uint8) uint64 {
	if w == 0 {
		return 1
	}
	return mask(w)
}

// String renders a term fully inlined (debugging, evidence samples).
func (t *Term) String() string {
	var sb strings.Builder
	t.write(&sb, 0)
	return sb.String()
}

func (t *Term) write(sb *strings.Builder, depth int) {
	if depth > 12 {
		sb.WriteString("…")
		return
	}
	switch t.op {
	case OpConst:
		sb.WriteString(constLit(t.w, t.c))
	case OpVar:
		sb.WriteString(t.name)
	case OpExtract:
		fmt.Fprintf(sb, "(extract[%d:%d] ", t.c>>8, t.c&0xff)
		t.args[0].write(sb, depth+1)
		sb.WriteByte(')')
	case OpZExt, OpSExt:
		if t.op == OpZExt {
			fmt.Fprintf(sb, "(zext%d ", t.w)
		} else {
			fmt.Fprintf(sb, "(sext%d ", t.w)
		}
		t.args[0].write(sb, depth+1)
		sb.WriteByte(')')
	case OpUF:
		sb.WriteString("(" + t.name)
		for _, a := range t.args {
			sb.WriteByte(' ')
			a.write(sb, depth+1)
		}
		sb.WriteByte(')')
	default:
		sb.WriteString("(" + opNames[t.op])
		for _, a := range t.args {
			sb.WriteByte(' ')
			a.write(sb, depth+1)
		}
		sb.WriteByte(')')
	}
}

// popcount etc. helper terms used by math/bits intrinsics.
func (tt *TermTable) PopCount(a *Term) *Term {
	if a.op == OpConst {
		return tt.Const(a.w, uint64(bits.OnesCount64(a.c)))
	}
	// sum of bits, SWAR style over the term's width
	w := a.w
	x := a
	m1 := tt.Const(w, 0x5555555555555555)
	m2 := tt.Const(w, 0x3333333333333333)
	m4 := tt.Const(w, 0x0f0f0f0f0f0f0f0f)
	x = tt.Bin(OpSub, x, tt.Bin(OpAnd, tt.Bin(OpLShr, x, tt.Const(w, 1)), m1))
	x = tt.Bin(OpAdd, tt.Bin(OpAnd, x, m2), tt.Bin(OpAnd, tt.Bin(OpLShr, x, tt.Const(w, 2)), m2))
	x = tt.Bin(OpAnd, tt.Bin(OpAdd, x, tt.Bin(OpLShr, x, tt.Const(w, 4))), m4)
	// add bytes
	res := tt.Const(w, 0)
	for i := uint8(0); i < w/8; i++ {
		b := tt.Bin(OpAnd, tt.Bin(OpLShr, x, tt.Const(w, uint64(i)*8)), tt.Const(w, 0xff))
		res = tt.Bin(OpAdd, res, b)
	}
	return res
}

// TrailingZeros as an ite chain (result width = w of a), returns w for zero.
func (tt *TermTable) TrailingZeros(a *Term) *Term {
	w := a.w
	res := tt.Const(w, uint64(w))
	for i := int(w) - 1; i >= 0; i-- {
		bit := tt.Cmp(OpEq, tt.Extract(a, uint8(i), uint8(i)), tt.Const(1, 1))
		res = tt.Ite(bit, tt.Const(w, uint64(i)), res)
	}
	return res
}

// LeadingZeros as an ite chain, returns w for zero.
func (tt *TermTable) LeadingZeros(a *Term) *Term {
	w := a.w
	res := tt.Const(w, uint64(w))
	for i := 0; i < int(w); i++ {
		bit := tt.Cmp(OpEq, tt.Extract(a, uint8(i), uint8(i)), tt.Const(1, 1))
		res = tt.Ite(bit, tt.Const(w, uint64(int(w)-1-i)), res)
	}
	return res
}
