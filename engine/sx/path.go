package sx

// Per-path state: path condition, decision vector, nondet variables, budgets.

import (
	"fmt"
	"sync"

	"golang.org/x/tools/go/ssa"
)

// NondetVar records one nondeterministic input of the harness.
type NondetVar struct {
	Name  string // name#k
	Width int    // 0 bool, 8..64
	Term  *Term  // nil for concretised choices
	Conc  uint64 // value for concretised choices
	IsConc bool
}

// Violation describes a failed assertion or unexpected panic.
type Violation struct {
	Kind   string            `json:"kind"` // "assert" | "panic" | "bound" | "deadlock"
	Label  string            `json:"label"`
	Msg    string            `json:"msg,omitempty"`
	Site   string            `json:"site,omitempty"`
	Model  map[string]uint64 `json:"model"`
	Decisions []int64        `json:"decisions,omitempty"`
}

type pathState struct {
	i      *interpreter
	tt     *TermTable
	solver *Solver
	pc     []*Term
	known     map[*Term]bool
	lastModel map[string]uint64
	modelAge  int

	prefix    []int64
	pos       int
	decisions []int64
	newWork   [][]int64

	nondetCount map[string]int
	nondets     []NondetVar

	instrCount int64
	repoInstr  int64
	maxInstr   int64
	loopBound  int
	depth      int

	covers      map[string]int
	assertsSeen map[string]int
	obligations int
	discharged  int
	transitions int
	unknowns    int

	expectPanic string // substring expected in panic message ("" = none expected)
	panicSite   string
	panicLive   bool

	fnCalls map[*ssa.Function]int
	profile map[*ssa.Function]int64

	obs              []observation
	initPhase        bool
	permuteMaps      bool
	initProblems     []string
	pendingViolation *Violation
	boundIsViolation    bool
	deadlockIsViolation bool

	// scheduler
	gs      []*gor
	cur     *gor
	dead    bool
	nextGID int
	schedDeviations int
	liveG           sync.WaitGroup
	pendingEnd      *pathEnd
	syncObjs        map[*value]*syncObj
	maxDeviations   int

	// environment models
	fs      any
	clock   int64
	counters map[string]int64
	ext     map[string]any // scratch for intrinsics
}

func (p *pathState) addPC(t *Term) {
	if t.isTrue() {
		return
	}
	p.pc = append(p.pc, t)
	p.solver.Assert(p.tt, t)
	if p.lastModel != nil {
		memo := map[*Term]uint64{}
		if t.Eval(p.lastModel, memo) == 0 {
			p.lastModel = nil
		}
	}
	p.modelAge++
	if p.lastModel == nil && p.pos >= len(p.prefix) && p.modelAge >= 1 {
		p.modelAge = 0
		p.refreshModel()
	}
}

// decideBool resolves a symbolic condition, forking when both sides are feasible.
// Two shortcuts avoid solver calls: literals already on the path condition are
// answered from a table, and the last model of the path condition tells which
// side is certainly feasible (only the other side is queried).
func (p *pathState) decideBool(c *Term) bool {
	if c.op == OpConst {
		return c.c != 0
	}
	if v, ok := p.known[c]; ok {
		return v
	}
	if p.pos < len(p.prefix) {
		d := p.prefix[p.pos]
		p.pos++
		p.decisions = append(p.decisions, d)
		p.take(c, d != 0)
		return d != 0
	}
	p.transitions++
	nc := p.tt.BNot(c)
	var rt, rf SatResult
	if p.lastModel != nil {
		memo := map[*Term]uint64{}
		if c.Eval(p.lastModel, memo) != 0 {
			rt = Sat
			rf = p.checkKeepModel(nc)
		} else {
			rf = Sat
			rt = p.checkKeepModel(c)
		}
	} else {
		rt = p.checkKeepModel(c)
		if rt == Unsat {
			rf = Sat
		} else {
			rf = p.checkKeepModel(nc)
		}
	}
	if rt == Unknown || rf == Unknown {
		p.unknowns++
	}
	switch {
	case rt == Unsat && rf == Unsat:
		panic(pathEnd{StInfeasible, "path condition unsatisfiable"})
	case rt == Unsat:
		p.pos++
		p.decisions = append(p.decisions, 0)
		p.take(c, false)
		return false
	case rf == Unsat:
		p.pos++
		p.decisions = append(p.decisions, 1)
		p.take(c, true)
		return true
	}
	sib := make([]int64, len(p.decisions)+1)
	copy(sib, p.decisions)
	sib[len(p.decisions)] = 0
	p.newWork = append(p.newWork, sib)
	p.pos++
	p.decisions = append(p.decisions, 1)
	p.take(c, true)
	return true
}

// take records the outcome of a decision on c.
func (p *pathState) take(c *Term, v bool) {
	if v {
		p.addPC(c)
	} else {
		p.addPC(p.tt.BNot(c))
	}
	p.known[c] = v
	if c.op == OpBNot {
		p.known[c.args[0]] = !v
	} else {
		p.known[p.tt.BNot(c)] = !v
	}
	if p.lastModel != nil {
		memo := map[*Term]uint64{}
		if (c.Eval(p.lastModel, memo) != 0) != v {
			p.lastModel = nil
		}
	}
}

// checkKeepModel decides PC ∧ extra and does not disturb lastModel (which is a
// model of PC alone).
func (p *pathState) checkKeepModel(extra *Term) SatResult {
	return p.solver.Check(p.tt, extra)
}

// refreshModel obtains a model of the current path condition.
func (p *pathState) refreshModel() {
	vars := p.tt.Vars
	if len(vars) == 0 {
		p.lastModel = map[string]uint64{}
		return
	}
	r, m := p.solver.Model(p.tt, nil, vars)
	if r == Sat {
		p.lastModel = m
	} else {
		p.lastModel = nil
	}
}

// decideValue concretises a bit-vector term by forking over its feasible values.
func (p *pathState) decideValue(t *Term, limit int) uint64 {
	if t.op == OpConst {
		return t.c
	}
	if p.pos < len(p.prefix) {
		d := uint64(p.prefix[p.pos])
		p.pos++
		p.decisions = append(p.decisions, int64(d))
		p.addPC(p.tt.Cmp(OpEq, t, p.tt.Const(t.w, d)))
		return d
	}
	p.transitions++
	var vals []uint64
	excl := p.tt.Bool(true)
	for {
		r, m := p.solver.Model(p.tt, excl, []*Term{p.valueVar(t)})
		if r == Unknown {
			p.unknowns++
			panic(pathEnd{StInconclusive, "solver unknown while concretising " + t.String()})
		}
		if r == Unsat {
			break
		}
		v := m[p.valueVar(t).name]
		vals = append(vals, v)
		if len(vals) > limit {
			panic(pathEnd{StBound, fmt.Sprintf("more than %d feasible values while concretising %s", limit, t.String())})
		}
		excl = p.tt.BAnd(excl, p.tt.BNot(p.tt.Cmp(OpEq, t, p.tt.Const(t.w, v))))
	}
	if len(vals) == 0 {
		panic(pathEnd{StInfeasible, "no feasible value"})
	}
	for _, v := range vals[1:] {
		sib := make([]int64, len(p.decisions)+1)
		copy(sib, p.decisions)
		sib[len(p.decisions)] = int64(v)
		p.newWork = append(p.newWork, sib)
	}
	p.pos++
	p.decisions = append(p.decisions, int64(vals[0]))
	p.addPC(p.tt.Cmp(OpEq, t, p.tt.Const(t.w, vals[0])))
	return vals[0]
}

// valueVar returns a variable constrained to equal t so that get-value can
// report it (for non-variable terms we assert an equality with a fresh var).
func (p *pathState) valueVar(t *Term) *Term {
	if t.op == OpVar {
		return t
	}
	name := fmt.Sprintf("$val%d", t.id)
	v := p.tt.Var(name, t.w)
	if _, ok := p.ext["vv:"+name]; !ok {
		p.ext["vv:"+name] = true
		// definitional; does not restrict the path
		p.pc = append(p.pc, p.tt.Cmp(OpEq, v, t))
		p.solver.Assert(p.tt, p.tt.Cmp(OpEq, v, t))
	}
	return v
}

// decideChoice forks over n alternatives without involving the solver.
func (p *pathState) decideChoice(n int) int {
	if n <= 0 {
		panic(pathEnd{StAssumeFalse, "empty choice"})
	}
	if n == 1 {
		return 0
	}
	if p.pos < len(p.prefix) {
		d := int(p.prefix[p.pos])
		p.pos++
		p.decisions = append(p.decisions, int64(d))
		return d
	}
	p.transitions++
	for v := 1; v < n; v++ {
		sib := make([]int64, len(p.decisions)+1)
		copy(sib, p.decisions)
		sib[len(p.decisions)] = int64(v)
		p.newWork = append(p.newWork, sib)
	}
	p.pos++
	p.decisions = append(p.decisions, 0)
	return 0
}

func (p *pathState) nondetName(name string) string {
	k := p.nondetCount[name]
	p.nondetCount[name] = k + 1
	return fmt.Sprintf("%s#%d", name, k)
}

func (p *pathState) newVar(name string, w uint8) *Term {
	n := p.nondetName(name)
	t := p.tt.Var(n, w)
	p.nondets = append(p.nondets, NondetVar{Name: n, Width: int(w), Term: t})
	return t
}

// model extracts a model of PC ∧ extra for every nondet variable.
func (p *pathState) model(extra *Term) (SatResult, map[string]uint64) {
	var vars []*Term
	for _, nv := range p.nondets {
		if nv.Term != nil {
			vars = append(vars, nv.Term)
		}
	}
	var r SatResult
	var m map[string]uint64
	if len(vars) == 0 {
		r = p.solver.Check(p.tt, extra)
		m = map[string]uint64{}
	} else {
		r, m = p.solver.Model(p.tt, extra, vars)
	}
	if r != Sat {
		return r, nil
	}
	for _, nv := range p.nondets {
		if nv.IsConc {
			m[nv.Name] = nv.Conc
		}
	}
	return r, m
}
