package sx

// Symbolic scalar values, value equality that may yield a symbolic boolean,
// and deterministic (insertion ordered) maps that tolerate symbolic keys.

import (
	"fmt"
	"go/types"
	"strings"
)

// sym is a symbolic scalar: a Bool (width 0) or bit-vector term. Signedness
// is not part of the value; it comes from the static type at each operation.
type sym struct{ t *Term }

// intInfo returns the bit width and signedness of an integer (or bool) type.
// width 0 = bool; ok=false for non-integer types.
func intInfo(t types.Type) (w uint8, signed bool, ok bool) {
	b, isBasic := t.Underlying().(*types.Basic)
	if !isBasic {
		return 0, false, false
	}
	switch b.Kind() {
	case types.Bool, types.UntypedBool:
		return 0, false, true
	case types.Int, types.Int64, types.UntypedInt:
		return 64, true, true
	case types.Int8:
		return 8, true, true
	case types.Int16:
		return 16, true, true
	case types.Int32, types.UntypedRune:
		return 32, true, true
	case types.Uint, types.Uint64, types.Uintptr:
		return 64, false, true
	case types.Uint8:
		return 8, false, true
	case types.Uint16:
		return 16, false, true
	case types.Uint32:
		return 32, false, true
	}
	return 0, false, false
}

// termOf lifts a concrete scalar (or returns the term of a sym).
func (p *pathState) termOf(v value) *Term {
	switch v := v.(type) {
	case sym:
		return v.t
	case bool:
		return p.tt.Bool(v)
	case int:
		return p.tt.Const(64, uint64(v))
	case int8:
		return p.tt.Const(8, uint64(v))
	case int16:
		return p.tt.Const(16, uint64(v))
	case int32:
		return p.tt.Const(32, uint64(v))
	case int64:
		return p.tt.Const(64, uint64(v))
	case uint:
		return p.tt.Const(64, uint64(v))
	case uint8:
		return p.tt.Const(8, uint64(v))
	case uint16:
		return p.tt.Const(16, uint64(v))
	case uint32:
		return p.tt.Const(32, uint64(v))
	case uint64:
		return p.tt.Const(64, v)
	case uintptr:
		return p.tt.Const(64, uint64(v))
	}
	panic(fmt.Sprintf("termOf: not a scalar: %T", v))
}

// concreteOf converts a constant of type t into the interpreter's boxed value.
func concreteOf(t types.Type, c uint64) value {
	b := t.Underlying().(*types.Basic)
	switch b.Kind() {
	case types.Bool, types.UntypedBool:
		return c != 0
	case types.Int, types.UntypedInt:
		return int(c)
	case types.Int8:
		return int8(c)
	case types.Int16:
		return int16(c)
	case types.Int32, types.UntypedRune:
		return int32(c)
	case types.Int64:
		return int64(c)
	case types.Uint:
		return uint(c)
	case types.Uint8:
		return uint8(c)
	case types.Uint16:
		return uint16(c)
	case types.Uint32:
		return uint32(c)
	case types.Uint64:
		return c
	case types.Uintptr:
		return uintptr(c)
	}
	panic(fmt.Sprintf("concreteOf: %v", t))
}

// mkval wraps a term as a value of static type t, collapsing constants.
func mkval(t types.Type, tm *Term) value {
	if tm.op == OpConst {
		return concreteOf(t, tm.c)
	}
	return sym{tm}
}

func isSym(v value) bool { _, ok := v.(sym); return ok }

// containsSym reports whether v has a symbolic leaf (shallow through aggregates).
func containsSym(v value) bool {
	switch v := v.(type) {
	case sym:
		return true
	case structure:
		for _, e := range v {
			if containsSym(e) {
				return true
			}
		}
	case array:
		for _, e := range v {
			if containsSym(e) {
				return true
			}
		}
	case iface:
		return containsSym(v.v)
	case symString:
		return true
	}
	return false
}

// boolAnd/boolOr/boolNot on values that are bool or sym(Bool).
func (p *pathState) boolAnd(a, b value) value {
	if x, ok := a.(bool); ok {
		if !x {
			return false
		}
		return b
	}
	if y, ok := b.(bool); ok {
		if !y {
			return false
		}
		return a
	}
	return mkBool(p.tt.BAnd(a.(sym).t, b.(sym).t))
}

func (p *pathState) boolOr(a, b value) value {
	if x, ok := a.(bool); ok {
		if x {
			return true
		}
		return b
	}
	if y, ok := b.(bool); ok {
		if y {
			return true
		}
		return a
	}
	return mkBool(p.tt.BOr(a.(sym).t, b.(sym).t))
}

func (p *pathState) boolNot(a value) value {
	if x, ok := a.(bool); ok {
		return !x
	}
	return mkBool(p.tt.BNot(a.(sym).t))
}

func mkBool(t *Term) value {
	if t.op == OpConst {
		return t.c != 0
	}
	return sym{t}
}

// equalsV is Go's == for type t; the result is bool or sym(Bool).
func (p *pathState) equalsV(t types.Type, x, y value) value {
	if xs, ok := x.(sym); ok {
		return mkBool(p.tt.Cmp(OpEq, xs.t, p.termOf(y)))
	}
	if ys, ok := y.(sym); ok {
		return mkBool(p.tt.Cmp(OpEq, p.termOf(x), ys.t))
	}
	switch x := x.(type) {
	case structure:
		y := y.(structure)
		tStruct := t.Underlying().(*types.Struct)
		var res value = true
		for i, n := 0, tStruct.NumFields(); i < n; i++ {
			f := tStruct.Field(i)
			if f.Name() == "_" {
				continue
			}
			res = p.boolAnd(res, p.equalsV(f.Type(), x[i], y[i]))
			if res == false {
				return false
			}
		}
		return res
	case array:
		y := y.(array)
		tElt := t.Underlying().(*types.Array).Elem()
		var res value = true
		for i := range x {
			res = p.boolAnd(res, p.equalsV(tElt, x[i], y[i]))
			if res == false {
				return false
			}
		}
		return res
	case iface:
		y := y.(iface)
		if x.t == nil || y.t == nil {
			return x.t == nil && y.t == nil
		}
		if !types.Identical(x.t, y.t) {
			return false
		}
		return p.equalsV(x.t, x.v, y.v)
	case symString:
		return p.symStringEq(x, y)
	case string:
		if ys, ok := y.(symString); ok {
			return p.symStringEq(ys, x)
		}
		return x == y.(string)
	case *value:
		return x == y.(*value)
	case *channel:
		return x == y.(*channel)
	case bool, int, int8, int16, int32, int64, uint, uint8, uint16, uint32, uint64, uintptr,
		float32, float64, complex64, complex128:
		return x == y
	case *omap:
		return x == y.(*omap)
	}
	panic(targetPanic{iface{nil, fmt.Sprintf("runtime error: comparing uncomparable type %s", t)}})
}

// ---------------------------------------------------------------------
// Ordered maps

type mentry struct {
	key, val value
	deleted  bool
}

type omap struct {
	keyType types.Type
	entries []mentry
	index   map[any]int
	live    int
	symKeys int
}

func makeMap(kt types.Type, reserve int64) value {
	return &omap{keyType: kt, index: make(map[any]int)}
}

// canonKey returns a comparable Go value identifying a concrete key.
func canonKey(v value) (any, bool) {
	switch v := v.(type) {
	case sym, symString:
		return nil, false
	case structure:
		var sb strings.Builder
		sb.WriteString("S{")
		for _, e := range v {
			k, ok := canonKey(e)
			if !ok {
				return nil, false
			}
			fmt.Fprintf(&sb, "%T:%v;", k, k)
		}
		sb.WriteString("}")
		return sb.String(), true
	case array:
		var sb strings.Builder
		sb.WriteString("A[")
		for _, e := range v {
			k, ok := canonKey(e)
			if !ok {
				return nil, false
			}
			fmt.Fprintf(&sb, "%T:%v;", k, k)
		}
		sb.WriteString("]")
		return sb.String(), true
	case iface:
		if v.t == nil {
			return "I<nil>", true
		}
		k, ok := canonKey(v.v)
		if !ok {
			return nil, false
		}
		return fmt.Sprintf("I<%s>%T:%v", v.t.String(), k, k), true
	case float64:
		if v != v {
			return nil, false
		}
		return v, true
	case []value, *omap, *closure:
		panic(targetPanic{iface{nil, "runtime error: hash of unhashable type"}})
	}
	return v, true
}

// find returns the index of the live entry equal to key, or -1. It may fork.
func (m *omap) find(p *pathState, key value) int {
	if m == nil {
		return -1
	}
	ck, conc := canonKey(key)
	if conc && m.symKeys == 0 {
		if i, ok := m.index[ck]; ok {
			return i
		}
		return -1
	}
	if conc {
		if i, ok := m.index[ck]; ok {
			return i
		}
	}
	for i := range m.entries {
		e := &m.entries[i]
		if e.deleted {
			continue
		}
		eq := p.equalsV(m.keyType, key, e.key)
		switch eq := eq.(type) {
		case bool:
			if eq {
				return i
			}
		case sym:
			if p.decideBool(eq.t) {
				return i
			}
		}
	}
	return -1
}

func (m *omap) lookup(p *pathState, key value) (value, bool) {
	i := m.find(p, key)
	if i < 0 {
		return nil, false
	}
	return m.entries[i].val, true
}

func (m *omap) insert(p *pathState, key, val value) {
	if m == nil {
		panic(rtPanic("assignment to entry in nil map"))
	}
	i := m.find(p, key)
	if i >= 0 {
		m.entries[i].val = val
		return
	}
	if len(m.entries) > 4096 && m.live*2 < len(m.entries) {
		m.compact()
	}
	m.entries = append(m.entries, mentry{key: key, val: val})
	m.live++
	if ck, ok := canonKey(key); ok {
		m.index[ck] = len(m.entries) - 1
	} else {
		m.symKeys++
	}
}

func (m *omap) compact() {
	n := m.entries[:0:0]
	m.index = make(map[any]int)
	for _, e := range m.entries {
		if e.deleted {
			continue
		}
		n = append(n, e)
		if ck, ok := canonKey(e.key); ok {
			m.index[ck] = len(n) - 1
		}
	}
	m.entries = n
}

func (m *omap) delete(p *pathState, key value) {
	if m == nil {
		return
	}
	i := m.find(p, key)
	if i < 0 {
		return
	}
	e := &m.entries[i]
	e.deleted = true
	m.live--
	if ck, ok := canonKey(e.key); ok {
		delete(m.index, ck)
	} else {
		m.symKeys--
	}
	e.key, e.val = nil, nil
}

func (m *omap) clear() {
	if m == nil {
		return
	}
	m.entries = nil
	m.index = make(map[any]int)
	m.live = 0
	m.symKeys = 0
}

func (m *omap) len() int {
	if m == nil {
		return 0
	}
	return m.live
}

type omapIter struct {
	m    *omap
	i    int
	perm []int // explicit visiting order (permuted iteration)
}

var perms3 = [][]int{{0, 1, 2}, {0, 2, 1}, {1, 0, 2}, {1, 2, 0}, {2, 0, 1}, {2, 1, 0}}

// newMapIter starts an iteration; under permuteMaps the order of small maps
// is a decision.
func newMapIter(p *pathState, m *omap) *omapIter {
	it := &omapIter{m: m}
	if m == nil || !p.permuteMaps || m.live < 2 || m.live > 3 {
		return it
	}
	var liveIdx []int
	for i := range m.entries {
		if !m.entries[i].deleted {
			liveIdx = append(liveIdx, i)
		}
	}
	var order []int
	if len(liveIdx) == 2 {
		if p.decideChoice(2) == 1 {
			order = []int{1, 0}
		} else {
			order = []int{0, 1}
		}
	} else {
		order = perms3[p.decideChoice(6)]
	}
	for _, o := range order {
		it.perm = append(it.perm, liveIdx[o])
	}
	return it
}

func (it *omapIter) next() tuple {
	if it.perm != nil {
		for it.i < len(it.perm) {
			e := &it.m.entries[it.perm[it.i]]
			it.i++
			if !e.deleted {
				return tuple{true, e.key, e.val}
			}
		}
		return tuple{false, nil, nil}
	}
	if it.m != nil {
		for it.i < len(it.m.entries) {
			e := &it.m.entries[it.i]
			it.i++
			if !e.deleted {
				return tuple{true, e.key, e.val}
			}
		}
	}
	return tuple{false, nil, nil}
}

// ---------------------------------------------------------------------
// Strings with symbolic bytes

// symString is a string of concrete length whose bytes may be symbolic.
type symString []value // each element uint8 or sym(8)

func (p *pathState) symStringEq(x symString, y value) value {
	var yb []value
	switch y := y.(type) {
	case string:
		if len(y) != len(x) {
			return false
		}
		for i := 0; i < len(y); i++ {
			yb = append(yb, y[i])
		}
	case symString:
		if len(y) != len(x) {
			return false
		}
		yb = y
	}
	var res value = true
	for i := range x {
		res = p.boolAnd(res, p.equalsV(types.Typ[types.Uint8], x[i], yb[i]))
		if res == false {
			return false
		}
	}
	return res
}

// strBytes returns the bytes of a string value (concrete or symbolic).
func strBytes(s value) []value {
	switch s := s.(type) {
	case string:
		r := make([]value, len(s))
		for i := 0; i < len(s); i++ {
			r[i] = s[i]
		}
		return r
	case symString:
		return s
	}
	panic(fmt.Sprintf("strBytes: %T", s))
}

// mkString builds a string value from bytes, concrete when possible.
func mkString(b []value) value {
	buf := make([]byte, len(b))
	for i, e := range b {
		c, ok := e.(uint8)
		if !ok {
			cp := make(symString, len(b))
			copy(cp, b)
			return cp
		}
		buf[i] = c
	}
	return string(buf)
}

func strLen(s value) int {
	switch s := s.(type) {
	case string:
		return len(s)
	case symString:
		return len(s)
	}
	panic(fmt.Sprintf("strLen: %T", s))
}
