package sx

// Goroutines as coroutines under a deterministic run-to-block scheduler,
// channels and select as engine objects, sync primitives as intrinsics.

import (
	"fmt"
	"go/token"
	"go/types"

	"golang.org/x/tools/go/ssa"
)

type gor struct {
	id      int
	wake    chan bool // true = run, false = die
	started bool
	done    bool
	blocked func() bool
	fn      value
	args    []value
	pos     token.Pos
	what    string
}

type sendRec struct {
	v     value
	taken bool
}

type channel struct {
	id          int
	cap         int
	buf         []value
	closed      bool
	slot        *sendRec // unbuffered rendezvous
	recvWaiters int
	nextTicket  int // blocked senders are served in arrival order, as in the Go runtime
	serving     int
}

func newChannel(p *pathState, c int) *channel {
	p.counters["chan"]++
	return &channel{id: int(p.counters["chan"]), cap: c}
}

func (c *channel) length() int {
	if c == nil {
		return 0
	}
	return len(c.buf)
}

func (c *channel) capacity() int {
	if c == nil {
		return 0
	}
	return c.cap
}

func (c *channel) canRecv() bool {
	return c != nil && (len(c.buf) > 0 || c.slot != nil || c.closed)
}

func (c *channel) canSend() bool {
	if c == nil {
		return false
	}
	if c.closed {
		return true // will panic
	}
	if c.cap > 0 {
		return len(c.buf) < c.cap
	}
	return c.slot == nil
}

// canSendNow: for select, an unbuffered send is ready only with a waiting receiver.
func (c *channel) canSendNow() bool {
	if c == nil {
		return false
	}
	if c.closed {
		return true
	}
	if c.cap > 0 {
		return len(c.buf) < c.cap
	}
	return c.slot == nil && c.recvWaiters > 0
}

func (p *pathState) mainG() *gor { return p.gs[0] }

func spawn(fr *frame, pos token.Pos, fn value, args []value) {
	p := fr.p
	g := &gor{id: len(p.gs), wake: make(chan bool), fn: fn, args: args, pos: pos}
	switch f := fn.(type) {
	case *ssa.Function:
		g.what = f.String()
	case *closure:
		g.what = f.Fn.String()
	}
	p.gs = append(p.gs, g)
	live := 0
	for _, o := range p.gs {
		if !o.done {
			live++
		}
	}
	if live > 64 || len(p.gs) > 20000 {
		panic(pathEnd{StBound, "more than 64 live goroutines: " + p.deadlockInfo()})
	}
}

// runnable reports whether g could make progress if scheduled.
func (g *gor) runnable() bool {
	if g.done {
		return false
	}
	return g.blocked == nil || g.blocked()
}

func (p *pathState) pickNext(cur *gor) *gor {
	var cands []*gor
	n := len(p.gs)
	for k := 1; k <= n; k++ {
		g := p.gs[(cur.id+k)%n]
		if g == cur {
			continue
		}
		if g.runnable() {
			cands = append(cands, g)
		}
	}
	if len(cands) == 0 {
		return nil
	}
	if len(cands) > 1 && p.schedDeviations < p.maxDeviations {
		k := p.decideChoice(len(cands))
		if k != 0 {
			p.schedDeviations++
		}
		return cands[k]
	}
	return cands[0]
}

func (p *pathState) resume(g *gor) {
	p.cur = g
	if !g.started {
		g.started = true
		p.liveG.Add(1)
		go p.goMain(g)
		return
	}
	g.wake <- true
}

// goMain is the body of the real goroutine backing an interpreted one.
func (p *pathState) goMain(g *gor) {
	defer p.liveG.Done()
	defer func() {
		r := recover()
		g.done = true
		if p.dead {
			return
		}
		if r != nil {
			pe, ok := r.(pathEnd)
			if !ok {
				// target-level panic in a goroutine crashes the program
				switch r := r.(type) {
				case targetPanic:
					pe = pathEnd{StPanic, "panic in goroutine " + g.what + ": " + panicString(p.i, r)}
				case rtPanic:
					pe = pathEnd{StPanic, "panic in goroutine " + g.what + ": runtime error: " + string(r)}
				case string:
					pe = pathEnd{StPanic, "panic in goroutine " + g.what + ": " + r}
				default:
					pe = pathEnd{StEngineError, fmt.Sprintf("goroutine %s: %v", g.what, r)}
				}
			}
			if pe.status == StKilled {
				return
			}
			p.pendingEnd = &pe
			m := p.mainG()
			p.cur = m
			m.wake <- false
			return
		}
		// normal end: hand over to someone else
		next := p.pickNext(g)
		if next == nil {
			pe := pathEnd{StDeadlock, p.deadlockInfo()}
			p.pendingEnd = &pe
			m := p.mainG()
			p.cur = m
			m.wake <- false
			return
		}
		p.resume(next)
	}()
	func() {
		defer func() {
			// convert engine-level Go panics raised outside runFrame
			if r := recover(); r != nil {
				if _, ok := r.(pathEnd); ok {
					panic(r)
				}
				panic(classifyPanicNoThrow(r))
			}
		}()
		call(p.i, &frame{i: p.i, p: p, g: g}, g.pos, g.fn, g.args)
	}()
}

func classifyPanicNoThrow(r any) (res any) {
	defer func() {
		if x := recover(); x != nil {
			res = x
		}
	}()
	return classifyPanic(r)
}

func (p *pathState) deadlockInfo() string {
	s := "all goroutines are blocked:"
	for _, g := range p.gs {
		if !g.done {
			s += fmt.Sprintf(" g%d(%s)", g.id, g.what)
		}
	}
	return s
}

// blockOn suspends the current goroutine until cond holds.
func blockOn(fr *frame, cond func() bool) {
	p := fr.p
	g := fr.g
	if g == nil {
		g = p.mainG()
	}
	for !cond() {
		g.blocked = cond
		p.switchAway(g)
		g.blocked = nil
	}
}

// yield lets other goroutines run until they all block (used by harness helpers).
func yield(fr *frame) {
	p := fr.p
	g := fr.g
	if g == nil {
		g = p.mainG()
	}
	p.switchAway(g)
}

func (p *pathState) switchAway(g *gor) {
	next := p.pickNext(g)
	if next == nil {
		if g.runnable() {
			return
		}
		panic(pathEnd{StDeadlock, p.deadlockInfo()})
	}
	p.resume(next)
	ok := <-g.wake
	if !ok {
		if g.id == 0 && p.pendingEnd != nil {
			pe := *p.pendingEnd
			p.pendingEnd = nil
			panic(pe)
		}
		panic(pathEnd{StKilled, ""})
	}
}

// killAll terminates every goroutine still parked (called when the path ends).
func (p *pathState) killAll() {
	p.dead = true
	for _, g := range p.gs[1:] {
		if g.started && !g.done {
			g.wake <- false
		}
	}
	p.liveG.Wait()
}

// ---------------------------------------------------------------------

func chanSend(fr *frame, c *channel, v value) {
	if c == nil {
		blockOn(fr, func() bool { return false })
	}
	ticket := c.nextTicket
	c.nextTicket++
	blockOn(fr, func() bool { return c.serving == ticket && c.canSend() })
	c.serving++
	if c.closed {
		panic(rtPanic("send on closed channel"))
	}
	if c.cap > 0 {
		c.buf = append(c.buf, v)
		return
	}
	rec := &sendRec{v: v}
	c.slot = rec
	blockOn(fr, func() bool { return rec.taken })
}

func chanRecv(fr *frame, c *channel) (value, bool) {
	if c == nil {
		blockOn(fr, func() bool { return false })
	}
	c.recvWaiters++
	blockOn(fr, c.canRecv)
	c.recvWaiters--
	return c.take()
}

func (c *channel) take() (value, bool) {
	if len(c.buf) > 0 {
		v := c.buf[0]
		c.buf = c.buf[1:]
		return v, true
	}
	if c.slot != nil {
		rec := c.slot
		c.slot = nil
		rec.taken = true
		return rec.v, true
	}
	return nil, false // closed
}

func chanClose(fr *frame, c *channel) {
	if c == nil {
		panic(rtPanic("close of nil channel"))
	}
	if c.closed {
		panic(rtPanic("close of closed channel"))
	}
	c.closed = true
}

func chanSelect(fr *frame, instr *ssa.Select) value {
	type scase struct {
		c    *channel
		send bool
		v    value
	}
	cases := make([]scase, len(instr.States))
	for i, st := range instr.States {
		cases[i].c, _ = fr.get(st.Chan).(*channel)
		cases[i].send = st.Dir == types.SendOnly
		if st.Send != nil {
			cases[i].v = fr.get(st.Send)
		}
	}
	ready := func() int {
		for i, sc := range cases {
			if sc.send {
				if sc.c.canSendNow() {
					return i
				}
			} else if sc.c.canRecv() {
				return i
			}
		}
		return -1
	}
	chosen := ready()
	if chosen < 0 && instr.Blocking {
		for _, sc := range cases {
			if !sc.send && sc.c != nil {
				sc.c.recvWaiters++
			}
		}
		blockOn(fr, func() bool {
			for _, sc := range cases {
				if sc.send {
					if sc.c.canSend() {
						return true
					}
				} else if sc.c.canRecv() {
					return true
				}
			}
			return false
		})
		for _, sc := range cases {
			if !sc.send && sc.c != nil {
				sc.c.recvWaiters--
			}
		}
		for i, sc := range cases {
			if sc.send && sc.c.canSend() || !sc.send && sc.c.canRecv() {
				chosen = i
				break
			}
		}
	}
	var recv value
	recvOk := false
	if chosen >= 0 {
		sc := cases[chosen]
		if sc.send {
			if sc.c.closed {
				panic(rtPanic("send on closed channel"))
			}
			if sc.c.cap > 0 {
				sc.c.buf = append(sc.c.buf, sc.v)
			} else {
				rec := &sendRec{v: sc.v}
				sc.c.slot = rec
				blockOn(fr, func() bool { return rec.taken })
			}
		} else {
			recv, recvOk = sc.c.take()
		}
	}
	r := tuple{chosen, recvOk}
	for i, st := range instr.States {
		if st.Dir == types.RecvOnly {
			var v value
			if i == chosen && recvOk {
				v = recv
			} else {
				v = zero(st.Chan.Type().Underlying().(*types.Chan).Elem())
			}
			r = append(r, v)
		}
	}
	return r
}

// ---------------------------------------------------------------------
// sync primitives (state in a side table keyed by the receiver address)

type syncObj struct {
	locked  bool
	readers int
	count   int64
	done    bool
	running bool
}

func (p *pathState) syncOf(recv value) *syncObj {
	key := recv.(*value)
	if p.syncObjs == nil {
		p.syncObjs = make(map[*value]*syncObj)
	}
	so := p.syncObjs[key]
	if so == nil {
		so = &syncObj{}
		p.syncObjs[key] = so
	}
	return so
}

func init() {
	lock := func(fr *frame, args []value) value {
		so := fr.p.syncOf(args[0])
		blockOn(fr, func() bool { return !so.locked && so.readers == 0 })
		so.locked = true
		return nil
	}
	unlock := func(fr *frame, args []value) value {
		so := fr.p.syncOf(args[0])
		if !so.locked {
			panic(pathEnd{StPanic, "fatal error: sync: unlock of unlocked mutex"})
		}
		so.locked = false
		return nil
	}
	trylock := func(fr *frame, args []value) value {
		so := fr.p.syncOf(args[0])
		if so.locked || so.readers > 0 {
			return false
		}
		so.locked = true
		return true
	}
	intrinsics["(*sync.Mutex).Lock"] = lock
	intrinsics["(*sync.Mutex).Unlock"] = unlock
	intrinsics["(*sync.Mutex).TryLock"] = trylock
	intrinsics["(*sync.RWMutex).Lock"] = lock
	intrinsics["(*sync.RWMutex).Unlock"] = unlock
	intrinsics["(*sync.RWMutex).TryLock"] = trylock
	intrinsics["(*sync.RWMutex).RLock"] = func(fr *frame, args []value) value {
		so := fr.p.syncOf(args[0])
		blockOn(fr, func() bool { return !so.locked })
		so.readers++
		return nil
	}
	intrinsics["(*sync.RWMutex).RUnlock"] = func(fr *frame, args []value) value {
		so := fr.p.syncOf(args[0])
		if so.readers <= 0 {
			panic(pathEnd{StPanic, "fatal error: sync: RUnlock of unlocked RWMutex"})
		}
		so.readers--
		return nil
	}
	intrinsics["(*sync.WaitGroup).Add"] = func(fr *frame, args []value) value {
		so := fr.p.syncOf(args[0])
		so.count += asInt64(args[1])
		if so.count < 0 {
			panic(targetPanic{iface{nil, "sync: negative WaitGroup counter"}})
		}
		return nil
	}
	intrinsics["(*sync.WaitGroup).Done"] = func(fr *frame, args []value) value {
		so := fr.p.syncOf(args[0])
		so.count--
		if so.count < 0 {
			panic(targetPanic{iface{nil, "sync: negative WaitGroup counter"}})
		}
		return nil
	}
	intrinsics["(*sync.WaitGroup).Wait"] = func(fr *frame, args []value) value {
		so := fr.p.syncOf(args[0])
		blockOn(fr, func() bool { return so.count == 0 })
		return nil
	}
	intrinsics["(*sync.WaitGroup).Go"] = func(fr *frame, args []value) value {
		so := fr.p.syncOf(args[0])
		so.count++
		f := args[1]
		wrapper := &nativeFn{f: func(fr2 *frame, _ []value) value {
			defer func() { so.count-- }()
			call(fr2.i, fr2, token.NoPos, f, nil)
			return nil
		}}
		spawnNative(fr, wrapper)
		return nil
	}
	intrinsics["(*sync.Pool).Put"] = func(fr *frame, args []value) value { return nil }
	intrinsics["(*sync.Pool).Get"] = func(fr *frame, args []value) value {
		// a legal behaviour of the real pool: it is always empty
		pool := (*args[0].(*value)).(structure)
		newFn := pool[len(pool)-1]
		switch f := newFn.(type) {
		case *ssa.Function:
			if f == nil {
				return iface{}
			}
		case nil:
			return iface{}
		}
		return call(fr.i, fr, token.NoPos, newFn, nil)
	}
	intrinsics["(*sync.Once).Do"] = func(fr *frame, args []value) value {
		so := fr.p.syncOf(args[0])
		if so.done {
			return nil
		}
		if so.running {
			blockOn(fr, func() bool { return so.done })
			return nil
		}
		so.running = true
		defer func() { so.done = true }()
		call(fr.i, fr, token.NoPos, args[1], nil)
		return nil
	}
}

// nativeFn lets engine code be spawned as a goroutine body.
type nativeFn struct {
	f func(fr *frame, args []value) value
}

func spawnNative(fr *frame, nf *nativeFn) {
	p := fr.p
	g := &gor{id: len(p.gs), wake: make(chan bool), fn: nf, what: "native"}
	p.gs = append(p.gs, g)
}
