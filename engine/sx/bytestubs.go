package sx

// internal/bytealg kernels (assembly in the real build) as reference loops
// that accept symbolic bytes and return fork-free terms.

import (
	"bytes"
	"go/types"
)

func allConcreteBytes(bs ...[]value) bool {
	for _, b := range bs {
		for _, e := range b {
			if _, ok := e.(uint8); !ok {
				return false
			}
		}
	}
	return true
}

func toBytes(b []value) []byte {
	r := make([]byte, len(b))
	for i, e := range b {
		r[i] = e.(uint8)
	}
	return r
}

func bytesOf(v value) []value {
	switch v := v.(type) {
	case []value:
		return v
	case string, symString:
		return strBytes(v)
	}
	panic("bytesOf: unexpected value")
}

var tInt = types.Typ[types.Int]

func (p *pathState) byteEq(a, b value) *Term {
	return p.tt.Cmp(OpEq, p.termOf(a), p.termOf(b))
}

func (p *pathState) indexByte(b []value, c value) value {
	if _, ok := c.(uint8); ok && allConcreteBytes(b) {
		return bytes.IndexByte(toBytes(b), c.(uint8))
	}
	res := p.tt.Const(64, ^uint64(0))
	for i := len(b) - 1; i >= 0; i-- {
		res = p.tt.Ite(p.byteEq(b[i], c), p.tt.Const(64, uint64(i)), res)
	}
	return mkval(tInt, res)
}

func (p *pathState) lastIndexByte(b []value, c value) value {
	res := p.tt.Const(64, ^uint64(0))
	for i := 0; i < len(b); i++ {
		res = p.tt.Ite(p.byteEq(b[i], c), p.tt.Const(64, uint64(i)), res)
	}
	return mkval(tInt, res)
}

func (p *pathState) countByte(b []value, c value) value {
	res := p.tt.Const(64, 0)
	for i := range b {
		res = p.tt.Bin(OpAdd, res, p.tt.Ite(p.byteEq(b[i], c), p.tt.Const(64, 1), p.tt.Const(64, 0)))
	}
	return mkval(tInt, res)
}

func (p *pathState) bytesEqual(a, b []value) value {
	if len(a) != len(b) {
		return false
	}
	r := p.tt.Bool(true)
	for i := range a {
		r = p.tt.BAnd(r, p.byteEq(a[i], b[i]))
	}
	return mkBool(r)
}

func (p *pathState) bytesCompare(a, b []value) value {
	n := len(a)
	if len(b) < n {
		n = len(b)
	}
	var tail *Term
	switch {
	case len(a) < len(b):
		tail = p.tt.Const(64, ^uint64(0))
	case len(a) > len(b):
		tail = p.tt.Const(64, 1)
	default:
		tail = p.tt.Const(64, 0)
	}
	for i := n - 1; i >= 0; i-- {
		x, y := p.termOf(a[i]), p.termOf(b[i])
		tail = p.tt.Ite(p.tt.Cmp(OpUlt, x, y), p.tt.Const(64, ^uint64(0)),
			p.tt.Ite(p.tt.Cmp(OpUlt, y, x), p.tt.Const(64, 1), tail))
	}
	return mkval(tInt, tail)
}

func (p *pathState) bytesIndex(a, b []value) value {
	if allConcreteBytes(a, b) {
		return bytes.Index(toBytes(a), toBytes(b))
	}
	res := p.tt.Const(64, ^uint64(0))
	for i := len(a) - len(b); i >= 0; i-- {
		m := p.tt.Bool(true)
		for j := range b {
			m = p.tt.BAnd(m, p.byteEq(a[i+j], b[j]))
		}
		res = p.tt.Ite(m, p.tt.Const(64, uint64(i)), res)
	}
	return mkval(tInt, res)
}

func init() {
	intrinsics["internal/bytealg.IndexByte"] = func(fr *frame, args []value) value { return fr.p.indexByte(bytesOf(args[0]), args[1]) }
	intrinsics["internal/bytealg.IndexByteString"] = intrinsics["internal/bytealg.IndexByte"]
	intrinsics["internal/bytealg.LastIndexByte"] = func(fr *frame, args []value) value { return fr.p.lastIndexByte(bytesOf(args[0]), args[1]) }
	intrinsics["internal/bytealg.LastIndexByteString"] = intrinsics["internal/bytealg.LastIndexByte"]
	intrinsics["internal/bytealg.Count"] = func(fr *frame, args []value) value { return fr.p.countByte(bytesOf(args[0]), args[1]) }
	intrinsics["internal/bytealg.CountString"] = intrinsics["internal/bytealg.Count"]
	intrinsics["internal/bytealg.Equal"] = func(fr *frame, args []value) value { return fr.p.bytesEqual(bytesOf(args[0]), bytesOf(args[1])) }
	intrinsics["internal/bytealg.Compare"] = func(fr *frame, args []value) value { return fr.p.bytesCompare(bytesOf(args[0]), bytesOf(args[1])) }
	intrinsics["internal/bytealg.CompareString"] = intrinsics["internal/bytealg.Compare"]
	intrinsics["internal/bytealg.Index"] = func(fr *frame, args []value) value { return fr.p.bytesIndex(bytesOf(args[0]), bytesOf(args[1])) }
	intrinsics["internal/bytealg.IndexString"] = intrinsics["internal/bytealg.Index"]
	intrinsics["bytes.Equal"] = intrinsics["internal/bytealg.Equal"]
	intrinsics["bytes.Compare"] = intrinsics["internal/bytealg.Compare"]
	intrinsics["strings.Compare"] = intrinsics["internal/bytealg.Compare"]
	intrinsics["bytes.Index"] = intrinsics["internal/bytealg.Index"]
	intrinsics["strings.Index"] = intrinsics["internal/bytealg.Index"]
	intrinsics["bytes.IndexByte"] = intrinsics["internal/bytealg.IndexByte"]
	intrinsics["strings.IndexByte"] = intrinsics["internal/bytealg.IndexByte"]
	intrinsics["internal/stringslite.Index"] = intrinsics["internal/bytealg.Index"]
	intrinsics["internal/stringslite.IndexByte"] = intrinsics["internal/bytealg.IndexByte"]
	intrinsics["internal/cpu.Initialize"] = func(fr *frame, args []value) value { return nil }
	intrinsics["internal/abi.NoEscape"] = func(fr *frame, args []value) value { return args[0] }
	intrinsics["internal/abi.Escape"] = func(fr *frame, args []value) value { return args[0] }
}
