package sx

// Stubs used by the restart scenarios (C12): directory listing over the
// in-memory file system, a typed encoding/json codec for whole documents
// (the state file), and directory snapshots for the harness.
//
// encoding/json works by reflection and is not encodable. What the restart
// property needs from it is: a document written completely decodes to an equal
// value; a document cut short does not decode. Encode stores a deep copy of
// the value in the file-system model and writes a short marker naming it;
// Decode gives back a deep copy iff the marker is complete. Natively the real
// encoding/json runs on real files.

import (
	"go/types"
	"sort"
	"strconv"
	"strings"
)

// deepCopy clones everything reachable (slices get new backing arrays,
// pointers new cells): the decoded document shares nothing with the encoded one.
func deepCopy(v value) value {
	switch v := v.(type) {
	case structure:
		c := make(structure, len(v))
		for i, e := range v {
			c[i] = deepCopy(e)
		}
		return c
	case array:
		c := make(array, len(v))
		for i, e := range v {
			c[i] = deepCopy(e)
		}
		return c
	case []value:
		if v == nil {
			return v
		}
		c := make([]value, len(v))
		for i, e := range v {
			c[i] = deepCopy(e)
		}
		return c
	case *value:
		if v == nil {
			return v
		}
		c := new(value)
		*c = deepCopy(*v)
		return c
	case iface:
		return iface{v.t, deepCopy(v.v)}
	case *omap:
		if v == nil {
			return v
		}
		panic(pathEnd{StUnsupported, "json codec: document with a map"})
	}
	return v
}

func structField(t types.Type, name string) int {
	st := t.Underlying().(*types.Struct)
	for i := 0; i < st.NumFields(); i++ {
		if st.Field(i).Name() == name {
			return i
		}
	}
	panic(pathEnd{StUnsupported, "field " + name + " not found in " + t.String()})
}

const jsonMarker = "ZZJSON:"

func init() {
	intrinsics["os.ReadDir"] = func(fr *frame, args []value) value {
		dir := strings.TrimSuffix(argString(args[0]), "/")
		fs := fr.p.FS()
		type ent struct {
			size  int64
			isDir bool
		}
		ents := map[string]ent{}
		for name, f := range fs.files {
			if f.removed || !strings.HasPrefix(name, dir+"/") {
				continue
			}
			rest := name[len(dir)+1:]
			if k := strings.IndexByte(rest, '/'); k >= 0 {
				ents[rest[:k]] = ent{isDir: true}
			} else {
				ents[rest] = ent{size: int64(len(f.data))}
			}
		}
		var names []string
		for n := range ents {
			names = append(names, n)
		}
		sort.Strings(names)
		zp := fr.i.P.Pkgs[strings.TrimSuffix(zz, ".")]
		if zp == nil || zp.Type("DirEnt") == nil {
			panic(pathEnd{StUnsupported, "os.ReadDir needs zzverif.DirEnt"})
		}
		dt := zp.Type("DirEnt").Type()
		res := make([]value, len(names))
		for i, n := range names {
			res[i] = iface{dt, structure{n, ents[n].size, ents[n].isDir}}
		}
		return tuple{res, iface{}}
	}

	stat := func(fr *frame, args []value) value {
		name := argString(args[0])
		fs := fr.p.FS()
		zp := fr.i.P.Pkgs[strings.TrimSuffix(zz, ".")]
		if zp == nil || zp.Type("FileInf") == nil {
			panic(pathEnd{StUnsupported, "os.Stat needs zzverif.FileInf"})
		}
		ft := zp.Type("FileInf").Type()
		if f := fs.files[name]; f != nil && !f.removed {
			base := name[strings.LastIndexByte(name, '/')+1:]
			return tuple{iface{ft, structure{structure{base, int64(len(f.data)), false}}}, iface{}}
		}
		for n, f := range fs.files {
			if !f.removed && strings.HasPrefix(n, strings.TrimSuffix(name, "/")+"/") {
				base := name[strings.LastIndexByte(name, '/')+1:]
				return tuple{iface{ft, structure{structure{base, int64(0), true}}}, iface{}}
			}
		}
		return tuple{iface{}, fr.osErr("ErrNotExist", "stat "+name+": no such file or directory")}
	}
	if intrinsics["os.Stat"] == nil {
		intrinsics["os.Stat"] = stat
	}
	if intrinsics["os.Lstat"] == nil {
		intrinsics["os.Lstat"] = stat
	}
	intrinsics["os.CreateTemp"] = func(fr *frame, args []value) value {
		dir, pattern := argString(args[0]), argString(args[1])
		fs := fr.p.FS()
		for k := 0; ; k++ {
			fs.nextObj++
			name := strings.TrimSuffix(dir, "/") + "/" + strings.Replace(pattern, "*", strconv.Itoa(100000+fs.nextObj), 1)
			if !strings.Contains(pattern, "*") {
				name += strconv.Itoa(100000 + fs.nextObj)
			}
			if f := fs.files[name]; f == nil || f.removed {
				return fr.openFile(name, oCREATE|oEXCL|oRDWR)
			}
		}
	}

	intrinsics["(*encoding/json.Encoder).Encode"] = func(fr *frame, args []value) value {
		enc := args[0].(*value)
		et := fr.i.P.Pkgs["encoding/json"].Type("Encoder").Type()
		w := (*enc).(structure)[structField(et, "w")]
		doc := args[1].(iface)
		fs := fr.p.FS()
		fs.nextObj++
		id := strconv.Itoa(fs.nextObj)
		if fs.objs == nil {
			fs.objs = map[string]value{}
		}
		fs.objs[id] = deepCopy(doc)
		text := jsonMarker + id + ";\n"
		b := make([]value, len(text))
		for i := range text {
			b[i] = text[i]
		}
		r := writeBytesTo(fr, w, b).(tuple)
		return r[1]
	}
	intrinsics["(*encoding/json.Decoder).Decode"] = func(fr *frame, args []value) value {
		dec := args[0].(*value)
		dt := fr.i.P.Pkgs["encoding/json"].Type("Decoder").Type()
		r := (*dec).(structure)[structField(dt, "r")].(iface)
		fp, ok := r.v.(*value)
		if !ok {
			panic(pathEnd{StUnsupported, "json.Decoder over something that is not a file"})
		}
		h := fr.handleOf(fp)
		var sb strings.Builder
		for ; h.pos < int64(len(h.f.data)); h.pos++ {
			c, ok := h.f.data[h.pos].(uint8)
			if !ok {
				return fr.makeError("invalid character in document", nil)
			}
			sb.WriteByte(c)
		}
		text := sb.String()
		if text == "" {
			return fr.ioEOF()
		}
		if !strings.HasPrefix(text, jsonMarker) {
			if strings.HasPrefix(jsonMarker, text) {
				return fr.makeError("unexpected EOF", nil)
			}
			return fr.makeError("invalid character looking for beginning of value", nil)
		}
		rest := text[len(jsonMarker):]
		k := strings.IndexByte(rest, ';')
		if k < 0 {
			return fr.makeError("unexpected EOF", nil)
		}
		obj, ok := fr.p.FS().objs[rest[:k]]
		if !ok {
			return fr.makeError("invalid document", nil)
		}
		dst := args[1].(iface)
		src := obj.(iface)
		if !types.Identical(dst.t, src.t) {
			panic(pathEnd{StUnsupported, "json codec: decoding " + src.t.String() + " into " + dst.t.String()})
		}
		dp, sp := dst.v.(*value), src.v.(*value)
		*dp = deepCopy(*sp)
		return iface{}
	}

	// harness access: directory listing, snapshots, removal
	intrinsics[zz+"FSList"] = func(fr *frame, args []value) value {
		dir := strings.TrimSuffix(argString(args[0]), "/")
		var names []string
		for name, f := range fr.p.FS().files {
			if f.removed || !strings.HasPrefix(name, dir+"/") || strings.Contains(name[len(dir)+1:], "/") {
				continue
			}
			names = append(names, name[len(dir)+1:])
		}
		sort.Strings(names)
		res := make([]value, len(names))
		for i, n := range names {
			res[i] = n
		}
		return res
	}
	intrinsics[zz+"FSCopyTree"] = func(fr *frame, args []value) value {
		src, dst := strings.TrimSuffix(argString(args[0]), "/"), strings.TrimSuffix(argString(args[1]), "/")
		fs := fr.p.FS()
		var names []string
		for name, f := range fs.files {
			if !f.removed && strings.HasPrefix(name, src+"/") {
				names = append(names, name)
			}
		}
		sort.Strings(names)
		for _, name := range names {
			nn := dst + name[len(src):]
			fs.files[nn] = &memFile{name: nn, data: append([]value(nil), fs.files[name].data...)}
		}
		return nil
	}
	intrinsics[zz+"FSCopyFile"] = func(fr *frame, args []value) value {
		src, dst := argString(args[0]), argString(args[1])
		fs := fr.p.FS()
		if f := fs.files[src]; f != nil && !f.removed {
			fs.files[dst] = &memFile{name: dst, data: append([]value(nil), f.data...)}
		}
		return nil
	}
	intrinsics[zz+"FSRemove"] = func(fr *frame, args []value) value {
		fs := fr.p.FS()
		if f := fs.files[argString(args[0])]; f != nil {
			f.removed = true
			delete(fs.files, argString(args[0]))
		}
		return nil
	}
}
