package sx

// fmt / errors stubs: formatting is done natively on converted operands;
// symbolic operands render as opaque text (a later branch on such a string
// would need a concrete string and ends the path as unsupported).

import (
	"errors"
	"fmt"
	"go/token"
	"go/types"
	"strings"

	"golang.org/x/tools/go/ssa"
)

type namedInt struct {
	n int64
	u uint64
	signed bool
	s string
}

func (x namedInt) Format(f fmt.State, verb rune) {
	switch verb {
	case 'v', 's':
		fmt.Fprint(f, x.s)
	case 'q':
		fmt.Fprintf(f, "%q", x.s)
	default:
		if x.signed {
			fmt.Fprintf(f, fmt.FormatString(f, verb), x.n)
		} else {
			fmt.Fprintf(f, fmt.FormatString(f, verb), x.u)
		}
	}
}

type strWrap struct{ s string }

func (x strWrap) String() string { return x.s }

// methodOf finds a niladic method returning string on the dynamic type.
func (i *interpreter) stringMethod(t types.Type, name string) *ssa.Function {
	ms := i.prog.MethodSets.MethodSet(t)
	for k := 0; k < ms.Len(); k++ {
		sel := ms.At(k)
		if sel.Obj().Name() != name {
			continue
		}
		sig := sel.Type().(*types.Signature)
		if sig.Params().Len() == 0 && sig.Results().Len() == 1 {
			if b, ok := sig.Results().At(0).Type().Underlying().(*types.Basic); ok && b.Kind() == types.String {
				return i.prog.MethodValue(sel)
			}
		}
	}
	return nil
}

func (fr *frame) toNative(v value) any {
	switch v := v.(type) {
	case iface:
		if v.t == nil {
			return nil
		}
		for _, m := range []string{"Error", "String"} {
			if fn := fr.i.stringMethod(v.t, m); fn != nil {
				if containsSym(v.v) {
					return "<sym>"
				}
				if pv, isPtr := v.v.(*value); isPtr && pv == nil {
					return "<nil>"
				}
				r := call(fr.i, fr, token.NoPos, fn, []value{v.v})
				s, _ := r.(string)
				if m == "Error" {
					return errors.New(s)
				}
				switch x := v.v.(type) {
				case int, int8, int16, int32, int64:
					return namedInt{n: asInt64(x), signed: true, s: s}
				case uint, uint8, uint16, uint32, uint64, uintptr:
					return namedInt{u: asUint64(x), s: s}
				}
				return strWrap{s}
			}
		}
		return fr.toNative(v.v)
	case sym:
		return "<sym>"
	case symString:
		return "<symstr>"
	case []value:
		if len(v) > 0 {
			if _, ok := v[0].(uint8); ok && allConcreteBytes(v) {
				return toBytes(v)
			}
		}
		parts := make([]any, len(v))
		for i, e := range v {
			parts[i] = fr.toNative(e)
		}
		return parts
	case *value:
		if v == nil {
			return nil
		}
		return fmt.Sprintf("%p", v)
	case structure, array, *omap, tuple:
		return toString(v)
	case nil:
		return nil
	}
	return v
}

func (fr *frame) nativeArgs(args value) []any {
	sl, _ := args.([]value)
	res := make([]any, len(sl))
	for i, a := range sl {
		res[i] = fr.toNative(a)
	}
	return res
}

func (fr *frame) makeError(msg string, wrapped value) value {
	i := fr.i
	if wrapped != nil {
		if fp := i.P.Pkgs["fmt"]; fp != nil {
			if tn := fp.Type("wrapError"); tn != nil {
				var cell value = structure{msg, wrapped}
				return iface{t: types.NewPointer(tn.Type()), v: &cell}
			}
		}
	}
	ep := i.P.Pkgs["errors"]
	tn := ep.Type("errorString")
	var cell value = structure{msg}
	return iface{t: types.NewPointer(tn.Type()), v: &cell}
}

func writeTo(fr *frame, w value, s string) value {
	itf := w.(iface)
	if itf.t == nil {
		panic(rtPanic("invalid memory address or nil pointer dereference"))
	}
	ms := fr.i.prog.MethodSets.MethodSet(itf.t)
	for k := 0; k < ms.Len(); k++ {
		sel := ms.At(k)
		if sel.Obj().Name() == "Write" {
			fn := fr.i.prog.MethodValue(sel)
			return call(fr.i, fr, token.NoPos, fn, []value{itf.v, strBytes(s)})
		}
	}
	panic(pathEnd{StUnsupported, "fmt.Fprint* to a value without Write"})
}

func init() {
	intrinsics["fmt.Sprintf"] = func(fr *frame, args []value) value {
		return fmt.Sprintf(strings.ReplaceAll(argString(args[0]), "%w", "%v"), fr.nativeArgs(args[1])...)
	}
	intrinsics["fmt.Sprint"] = func(fr *frame, args []value) value { return fmt.Sprint(fr.nativeArgs(args[0])...) }
	intrinsics["fmt.Sprintln"] = func(fr *frame, args []value) value { return fmt.Sprintln(fr.nativeArgs(args[0])...) }
	intrinsics["fmt.Errorf"] = func(fr *frame, args []value) value {
		format := argString(args[0])
		msg := fmt.Sprintf(strings.ReplaceAll(format, "%w", "%v"), fr.nativeArgs(args[1])...)
		var wrapped value
		if strings.Contains(format, "%w") {
			for _, a := range args[1].([]value) {
				if itf, ok := a.(iface); ok && itf.t != nil && fr.i.stringMethod(itf.t, "Error") != nil {
					wrapped = itf
				}
			}
		}
		return fr.makeError(msg, wrapped)
	}
	intrinsics["fmt.Fprintf"] = func(fr *frame, args []value) value {
		return writeTo(fr, args[0], fmt.Sprintf(argString(args[1]), fr.nativeArgs(args[2])...))
	}
	intrinsics["fmt.Fprint"] = func(fr *frame, args []value) value {
		return writeTo(fr, args[0], fmt.Sprint(fr.nativeArgs(args[1])...))
	}
	intrinsics["fmt.Fprintln"] = func(fr *frame, args []value) value {
		return writeTo(fr, args[0], fmt.Sprintln(fr.nativeArgs(args[1])...))
	}
	noOut := func(fr *frame, args []value) value { return tuple{0, iface{}} }
	intrinsics["fmt.Printf"] = noOut
	intrinsics["fmt.Println"] = noOut
	intrinsics["fmt.Print"] = noOut

	// errors.Is / errors.As without reflectlite
	intrinsics["errors.Is"] = func(fr *frame, args []value) value {
		err, target := args[0].(iface), args[1].(iface)
		for depth := 0; depth < 32; depth++ {
			if err.t == nil {
				return target.t == nil
			}
			if target.t != nil && types.Identical(err.t, target.t) && types.Comparable(err.t) {
				if eq, ok := fr.p.equalsV(err.t, err.v, target.v).(bool); ok && eq {
					return true
				}
			}
			// Unwrap() error
			next := iface{}
			ms := fr.i.prog.MethodSets.MethodSet(err.t)
			found := false
			for k := 0; k < ms.Len(); k++ {
				sel := ms.At(k)
				if sel.Obj().Name() == "Unwrap" {
					sig := sel.Type().(*types.Signature)
					if sig.Params().Len() == 0 && sig.Results().Len() == 1 {
						if _, isIface := sig.Results().At(0).Type().Underlying().(*types.Interface); isIface {
							r := call(fr.i, fr, token.NoPos, fr.i.prog.MethodValue(sel), []value{err.v})
							next, _ = r.(iface)
							found = true
						}
					}
				}
			}
			if !found || next.t == nil {
				return false
			}
			err = next
		}
		return false
	}
}

// sort.Slice family: the real pdqsort / insertion / stable code is interpreted;
// only the reflection-based swapper and length are provided here.
func init() {
	mk := func(fnName string, stable bool) intrinsic {
		return func(fr *frame, args []value) value {
			sl, _ := args[0].(iface).v.([]value)
			less := args[1]
			n := len(sl)
			swap := &nativeFn{f: func(_ *frame, a []value) value {
				i, j := int(asInt64(a[0])), int(asInt64(a[1]))
				sl[i], sl[j] = sl[j], sl[i]
				return nil
			}}
			ls := structure{less, swap}
			sp := fr.i.P.Pkgs["sort"]
			if stable {
				call(fr.i, fr, token.NoPos, sp.Func("stable_func"), []value{ls, n})
				return nil
			}
			limit := 0
			for x := uint(n); x != 0; x >>= 1 {
				limit++
			}
			call(fr.i, fr, token.NoPos, sp.Func("pdqsort_func"), []value{ls, 0, n, limit})
			return nil
		}
	}
	intrinsics["sort.Slice"] = mk("pdqsort_func", false)
	intrinsics["sort.SliceStable"] = mk("stable_func", true)
	intrinsics["sort.SliceIsSorted"] = func(fr *frame, args []value) value {
		sl, _ := args[0].(iface).v.([]value)
		for i := len(sl) - 1; i > 0; i-- {
			r := call(fr.i, fr, token.NoPos, args[1], []value{i, i - 1})
			switch c := r.(type) {
			case bool:
				if c {
					return false
				}
			case sym:
				if fr.p.decideBool(c.t) {
					return false
				}
			}
		}
		return true
	}
}
