package sx

// Capacity growth of append, following runtime.growslice of the gc runtime
// (nextslicecap + roundupsize with the small size classes), so that aliasing
// through spare capacity behaves as in the compiled program.

import "go/types"

var sizeClasses = []uintptr{0, 8, 16, 24, 32, 48, 64, 80, 96, 112, 128, 144, 160, 176, 192, 208, 224, 240, 256, 288, 320, 352, 384, 416, 448, 480, 512, 576, 640, 704, 768, 896, 1024, 1152, 1280, 1408, 1536, 1792, 2048, 2304, 2688, 3072, 3200, 3456, 4096, 4864, 5376, 6144, 6528, 6784, 6912, 8192, 9472, 9728, 10240, 10880, 12288, 13568, 14336, 16384, 18432, 19072, 20480, 21760, 24576, 27264, 28672, 32768}

func roundupsize(size uintptr) uintptr {
	if size <= 32768 {
		for _, c := range sizeClasses {
			if c >= size {
				return c
			}
		}
	}
	// large objects: page (8 KiB) granularity
	const page = 8192
	return (size + page - 1) &^ (page - 1)
}

func nextslicecap(newLen, oldCap int) int {
	newcap := oldCap
	doublecap := newcap + newcap
	if newLen > doublecap {
		return newLen
	}
	const threshold = 256
	if oldCap < threshold {
		return doublecap
	}
	for {
		newcap += (newcap + 3*threshold) >> 2
		if uint(newcap) >= uint(newLen) {
			break
		}
	}
	if newcap <= 0 {
		return newLen
	}
	return newcap
}

func growCap(oldCap, newLen int, elemSize int64) int {
	newcap := nextslicecap(newLen, oldCap)
	if elemSize <= 0 {
		return newcap
	}
	mem := roundupsize(uintptr(newcap) * uintptr(elemSize))
	return int(mem / uintptr(elemSize))
}

var stdSizes = types.SizesFor("gc", "amd64")

// appendValues implements append(dst, src...) with gc's growth policy.
func appendValues(dst, src []value, elem types.Type) []value {
	n := len(dst) + len(src)
	if n <= cap(dst) {
		return append(dst, src...)
	}
	var es int64 = 8
	if elem != nil {
		es = stdSizes.Sizeof(elem)
	}
	nc := growCap(cap(dst), n, es)
	if nc < n {
		nc = n
	}
	res := make([]value, n, nc)
	copy(res, dst)
	copy(res[len(dst):], src)
	// the tail of the new backing array is zero memory
	if nc > n && elem != nil {
		tail := res[n:nc]
		z := zero(elem)
		switch z.(type) {
		case structure, array:
			for i := range tail {
				tail[i] = zero(elem)
			}
		default:
			for i := range tail {
				tail[i] = z
			}
		}
	}
	return res
}
