package sx

// Persistent SMT solver process (z3 -in by default) with per-path push/pop,
// definition of shared sub-terms via define-fun, and fallback solvers for
// inconclusive answers.

import (
	"bufio"
	"fmt"
	"io"
	"os"
	"os/exec"
	"strconv"
	"strings"
	"time"
)

type SatResult int

const (
	Unsat SatResult = iota
	Sat
	Unknown
)

func (r SatResult) String() string { return [...]string{"unsat", "sat", "unknown"}[r] }

type SolverStats struct {
	Queries   int
	Sat       int
	Unsat     int
	Unknown   int
	Fallback  int
	Restarts  int
	SolveTime time.Duration
}

func (a *SolverStats) Add(b SolverStats) {
	a.Queries += b.Queries
	a.Sat += b.Sat
	a.Unsat += b.Unsat
	a.Unknown += b.Unknown
	a.Fallback += b.Fallback
	a.Restarts += b.Restarts
	a.SolveTime += b.SolveTime
}

type Solver struct {
	Kind      string // "z3" (default) or "cvc5"
	TimeoutMS int
	cmd       *exec.Cmd
	in        io.WriteCloser
	out       *bufio.Reader
	lines     chan string
	defined   map[int]bool
	declared  map[string]bool
	ufs       map[string]bool
	pathLog   []string // commands since BeginPath (for restart / fallback)
	inPath    bool
	Stats     SolverStats
	DumpDir   string // when set, unknown queries are dumped here
	NoFallback bool
}

func NewSolver(kind string, timeoutMS int) *Solver {
	s := &Solver{Kind: kind, TimeoutMS: timeoutMS}
	s.start()
	return s
}

func (s *Solver) start() {
	if s.Kind == "cvc5" {
		s.cmd = exec.Command("cvc5", "--lang=smt2", "--incremental", "--produce-models", fmt.Sprintf("--tlimit-per=%d", s.TimeoutMS))
	} else {
		s.cmd = exec.Command("z3", "-in")
	}
	in, _ := s.cmd.StdinPipe()
	out, _ := s.cmd.StdoutPipe()
	s.cmd.Stderr = os.Stderr
	if err := s.cmd.Start(); err != nil {
		panic(fmt.Sprintf("cannot start z3: %v", err))
	}
	s.in = in
	s.out = bufio.NewReaderSize(out, 1<<16)
	s.lines = make(chan string, 64)
	go func(r *bufio.Reader, ch chan string) {
		for {
			l, err := r.ReadString('\n')
			if l != "" {
				ch <- strings.TrimSpace(l)
			}
			if err != nil {
				close(ch)
				return
			}
		}
	}(s.out, s.lines)
	if s.Kind == "cvc5" {
		s.send("(set-logic ALL)")
	} else {
		s.send(fmt.Sprintf("(set-option :timeout %d)", s.TimeoutMS))
		s.send("(set-option :produce-models true)")
	}
}

func (s *Solver) Close() {
	if s.cmd != nil {
		s.in.Close()
		s.cmd.Process.Kill()
		s.cmd.Wait()
		s.cmd = nil
	}
}

func (s *Solver) restart() {
	s.Close()
	s.Stats.Restarts++
	s.start()
	if s.inPath {
		s.send("(push 1)")
		for _, l := range s.pathLog {
			s.send(l)
		}
	}
}

func (s *Solver) send(l string) {
	io.WriteString(s.in, l)
	io.WriteString(s.in, "\n")
}

func (s *Solver) logSend(l string) {
	s.pathLog = append(s.pathLog, l)
	s.send(l)
}

// readUntilMarker collects output lines up to the echo marker.
func (s *Solver) readUntilMarker() ([]string, bool) {
	s.send(`(echo "@@")`)
	var res []string
	deadline := time.After(time.Duration(s.TimeoutMS)*time.Millisecond*3 + 5*time.Second)
	for {
		select {
		case l, ok := <-s.lines:
			if !ok {
				return res, false
			}
			if l == "@@" || l == `"@@"` {
				return res, true
			}
			if l != "" {
				res = append(res, l)
			}
		case <-deadline:
			return res, false
		}
	}
}

func (s *Solver) BeginPath() {
	s.defined = make(map[int]bool)
	s.declared = make(map[string]bool)
	s.ufs = make(map[string]bool)
	s.pathLog = s.pathLog[:0]
	s.inPath = true
	s.send("(push 1)")
}

func (s *Solver) EndPath() {
	s.send("(pop 1)")
	s.inPath = false
}

// define makes sure t (and its sub-terms) are known to the solver.
func (s *Solver) define(tt *TermTable, t *Term) {
	if t.op == OpConst {
		return
	}
	if t.op == OpVar {
		if !s.declared[t.name] {
			s.declared[t.name] = true
			s.logSend(fmt.Sprintf("(declare-const %s %s)", smtName(t.name), sortName(t.w)))
		}
		return
	}
	if s.defined[t.id] {
		return
	}
	// iterative post-order to avoid deep recursion on long chains
	type fr struct {
		t *Term
		i int
	}
	stack := []fr{{t, 0}}
	for len(stack) > 0 {
		top := &stack[len(stack)-1]
		if top.i < len(top.t.args) {
			a := top.t.args[top.i]
			top.i++
			if a.op == OpConst {
				continue
			}
			if a.op == OpVar {
				if !s.declared[a.name] {
					s.declared[a.name] = true
					s.logSend(fmt.Sprintf("(declare-const %s %s)", smtName(a.name), sortName(a.w)))
				}
				continue
			}
			if !s.defined[a.id] {
				stack = append(stack, fr{a, 0})
			}
			continue
		}
		n := top.t
		stack = stack[:len(stack)-1]
		if s.defined[n.id] {
			continue
		}
		if n.op == OpUF && !s.ufs[n.name] {
			s.ufs[n.name] = true
			s.logSend(tt.UFs[n.name])
		}
		s.defined[n.id] = true
		s.logSend(fmt.Sprintf("(define-fun t%d () %s %s)", n.id, sortName(n.w), n.body()))
	}
}

// Assert adds t to the path condition.
func (s *Solver) Assert(tt *TermTable, t *Term) {
	s.define(tt, t)
	s.logSend("(assert " + t.ref() + ")")
}

func parseSat(lines []string) (SatResult, bool) {
	res := Unknown
	ok := false
	for _, l := range lines {
		switch {
		case l == "sat":
			res, ok = Sat, true
		case l == "unsat":
			res, ok = Unsat, true
		case l == "unknown":
			res, ok = Unknown, true
		case strings.HasPrefix(l, "(error"):
			return Unknown, false
		}
	}
	return res, ok
}

// Check decides PC ∧ extra (extra may be nil).
func (s *Solver) Check(tt *TermTable, extra *Term) SatResult {
	r, _ := s.check(tt, extra, nil)
	return r
}

// Model decides PC ∧ extra and returns values for vars when sat.
func (s *Solver) Model(tt *TermTable, extra *Term, vars []*Term) (SatResult, map[string]uint64) {
	return s.check(tt, extra, vars)
}

func (s *Solver) check(tt *TermTable, extra *Term, vars []*Term) (SatResult, map[string]uint64) {
	start := time.Now()
	s.Stats.Queries++
	if extra != nil {
		if extra.isFalse() {
			s.Stats.Unsat++
			return Unsat, nil
		}
		s.define(tt, extra)
	}
	for _, v := range vars {
		s.define(tt, v)
	}
	s.send("(push 1)")
	if extra != nil && !extra.isTrue() {
		s.send("(assert " + extra.ref() + ")")
	}
	s.send("(check-sat)")
	lines, alive := s.readUntilMarker()
	res, ok := parseSat(lines)
	var model map[string]uint64
	if alive && ok && res == Sat && len(vars) > 0 {
		var sb strings.Builder
		sb.WriteString("(get-value (")
		for _, v := range vars {
			sb.WriteString(v.ref())
			sb.WriteByte(' ')
		}
		sb.WriteString("))")
		s.send(sb.String())
		mlines, alive2 := s.readUntilMarker()
		alive = alive2
		model = parseModel(strings.Join(mlines, " "), vars)
		if model == nil {
			ok = false
		}
	}
	if alive {
		s.send("(pop 1)")
	} else {
		s.restart()
		ok = false
	}
	if !ok {
		res = Unknown
	}
	if res == Unknown && !s.NoFallback {
		res, model = s.fallback(extra, vars)
	}
	s.Stats.SolveTime += time.Since(start)
	switch res {
	case Sat:
		s.Stats.Sat++
	case Unsat:
		s.Stats.Unsat++
	default:
		s.Stats.Unknown++
	}
	return res, model
}

// parseModel parses "((|a#0| #x01) (|b| true) ...)".
func parseModel(txt string, vars []*Term) map[string]uint64 {
	m := make(map[string]uint64)
	toks := tokenize(txt)
	// expect: ( ( name val ) ( name val ) ... )
	i := 0
	if len(toks) == 0 || toks[0] != "(" {
		return nil
	}
	i++
	vi := 0
	for i < len(toks) && toks[i] == "(" {
		i++
		if i >= len(toks) {
			return nil
		}
		i++ // name (we rely on order)
		if i >= len(toks) {
			return nil
		}
		var val uint64
		tok := toks[i]
		switch {
		case tok == "true":
			val = 1
		case tok == "false":
			val = 0
		case strings.HasPrefix(tok, "#x"):
			v, err := strconv.ParseUint(tok[2:], 16, 64)
			if err != nil {
				return nil
			}
			val = v
		case strings.HasPrefix(tok, "#b"):
			v, err := strconv.ParseUint(tok[2:], 2, 64)
			if err != nil {
				return nil
			}
			val = v
		case tok == "(": // (_ bvN w)
			if i+2 < len(toks) && toks[i+1] == "_" && strings.HasPrefix(toks[i+2], "bv") {
				v, err := strconv.ParseUint(toks[i+2][2:], 10, 64)
				if err != nil {
					return nil
				}
				val = v
				for i < len(toks) && toks[i] != ")" {
					i++
				}
			} else {
				return nil
			}
		default:
			return nil
		}
		i++
		if i >= len(toks) || toks[i] != ")" {
			return nil
		}
		i++
		if vi >= len(vars) {
			return nil
		}
		m[vars[vi].name] = val
		vi++
	}
	if vi != len(vars) {
		return nil
	}
	return m
}

func tokenize(s string) []string {
	var toks []string
	i := 0
	for i < len(s) {
		c := s[i]
		switch {
		case c == ' ' || c == '\n' || c == '\t' || c == '\r':
			i++
		case c == '(' || c == ')':
			toks = append(toks, string(c))
			i++
		case c == '|':
			j := strings.IndexByte(s[i+1:], '|')
			if j < 0 {
				return toks
			}
			toks = append(toks, s[i:i+j+2])
			i += j + 2
		default:
			j := i
			for j < len(s) && s[j] != ' ' && s[j] != '(' && s[j] != ')' && s[j] != '\n' {
				j++
			}
			toks = append(toks, s[i:j])
			i = j
		}
	}
	return toks
}

// fallback re-decides the current query one-shot with z3-new and cvc5.
func (s *Solver) fallback(extra *Term, vars []*Term) (SatResult, map[string]uint64) {
	s.Stats.Fallback++
	var sb strings.Builder
	sb.WriteString("(set-option :produce-models true)\n")
	for _, l := range s.pathLog {
		sb.WriteString(l)
		sb.WriteByte('\n')
	}
	if extra != nil && !extra.isTrue() {
		sb.WriteString("(assert " + extra.ref() + ")\n")
	}
	sb.WriteString("(check-sat)\n")
	if len(vars) > 0 {
		sb.WriteString("(get-value (")
		for _, v := range vars {
			sb.WriteString(v.ref() + " ")
		}
		sb.WriteString("))\n")
	}
	f, err := os.CreateTemp("", "sxq-*.smt2")
	if err != nil {
		return Unknown, nil
	}
	defer os.Remove(f.Name())
	f.WriteString(sb.String())
	f.Close()
	tl := s.TimeoutMS * 3
	alts := [][]string{
		{"cvc5", "--lang=smt2", "--produce-models", fmt.Sprintf("--tlimit=%d", tl), f.Name()},
		{"z3-new", fmt.Sprintf("-T:%d", tl/1000+1), f.Name()},
		{"cvc5", "--lang=smt2", "--produce-models", "--solve-bv-as-int=sum", fmt.Sprintf("--tlimit=%d", tl), f.Name()},
	}
	if s.Kind == "cvc5" {
		alts[0] = []string{"z3", fmt.Sprintf("-T:%d", tl/1000+1), f.Name()}
	}
	for _, alt := range alts {
		out, _ := exec.Command(alt[0], alt[1:]...).Output()
		txt := strings.TrimSpace(string(out))
		lines := strings.SplitN(txt, "\n", 2)
		switch strings.TrimSpace(lines[0]) {
		case "unsat":
			return Unsat, nil
		case "sat":
			if len(vars) == 0 {
				return Sat, nil
			}
			if len(lines) > 1 && !strings.Contains(lines[1], "(error") {
				if m := parseModel(lines[1], vars); m != nil {
					return Sat, m
				}
			}
		}
	}
	if s.DumpDir != "" {
		os.MkdirAll(s.DumpDir, 0o755)
		os.WriteFile(fmt.Sprintf("%s/unknown-%d.smt2", s.DumpDir, time.Now().UnixNano()), []byte(sb.String()), 0o644)
	}
	return Unknown, nil
}
