package sx

// Layer 1: in-memory file system behind os.* / (*os.File).*, and a typed
// encoding/binary codec over engine values (bytes may be symbolic).

import (
	"fmt"
	"go/token"
	"go/types"
	"sort"
	"strings"

	"golang.org/x/tools/go/ssa"
)

type memFile struct {
	name    string
	data    []value // uint8 or sym(8)
	removed bool
}

type memHandle struct {
	f      *memFile
	pos    int64
	closed bool
	append bool
	rdonly bool
}

type memFS struct {
	files   map[string]*memFile
	handles map[*value]*memHandle
	ops     int64 // mutating operations so far
	crashAt int64 // crash after this many mutating operations (0 = never)
	badUse  []string
	objs    map[string]value // documents of the typed json codec (restartstubs.go)
	nextObj int
}

func (p *pathState) FS() *memFS {
	if fs, ok := p.fs.(*memFS); ok {
		return fs
	}
	fs := &memFS{files: map[string]*memFile{}, handles: map[*value]*memHandle{}}
	p.fs = fs
	return fs
}

// mutate counts a mutating file operation and raises the crash when due.
func (fs *memFS) mutate() {
	fs.ops++
	if fs.crashAt > 0 && fs.ops > fs.crashAt {
		panic(targetPanic{iface{types.Typ[types.String], "zz-crash"}})
	}
}

func (fr *frame) ioEOF() value {
	g := fr.i.P.Pkgs["io"].Var("EOF")
	return *fr.i.globals[g]
}

func (fr *frame) osErr(name string, msg string) value {
	if op := fr.i.P.Pkgs["os"]; op != nil {
		if g := op.Var(name); g != nil {
			if cell, ok := fr.i.globals[g]; ok {
				if itf, ok := (*cell).(iface); ok && itf.t != nil {
					return fr.makeError(msg, itf)
				}
			}
		}
	}
	return fr.makeError(msg, nil)
}

func (fr *frame) newFileValue(h *memHandle) value {
	ft := fr.i.P.Pkgs["os"].Type("File").Type()
	cell := new(value)
	*cell = zero(ft)
	fr.p.FS().handles[cell] = h
	return cell
}

func (fr *frame) handleOf(recv value) *memHandle {
	ptr, _ := recv.(*value)
	if ptr == nil {
		panic(rtPanic("invalid memory address or nil pointer dereference"))
	}
	h := fr.p.FS().handles[ptr]
	if h == nil {
		panic(pathEnd{StUnsupported, "os.File value not created by the file-system model"})
	}
	return h
}

const (
	oRDONLY = 0x0
	oWRONLY = 0x1
	oRDWR   = 0x2
	oAPPEND = 0x400
	oCREATE = 0x40
	oEXCL   = 0x80
	oTRUNC  = 0x200
)

func (fr *frame) openFile(name string, flag int) value {
	fs := fr.p.FS()
	f := fs.files[name]
	if f != nil && f.removed {
		f = nil
	}
	if f == nil {
		if flag&oCREATE == 0 {
			return tuple{(*value)(nil), fr.osErr("ErrNotExist", "open "+name+": no such file or directory")}
		}
		fs.mutate()
		f = &memFile{name: name}
		fs.files[name] = f
	} else {
		if flag&oCREATE != 0 && flag&oEXCL != 0 {
			return tuple{(*value)(nil), fr.osErr("ErrExist", "open "+name+": file exists")}
		}
		if flag&oTRUNC != 0 {
			fs.mutate()
			f.data = nil
		}
	}
	h := &memHandle{f: f, append: flag&oAPPEND != 0, rdonly: flag&3 == oRDONLY}
	return tuple{fr.newFileValue(h), iface{}}
}

func (h *memHandle) write(fs *memFS, b []value) {
	fs.mutate()
	if h.append {
		h.pos = int64(len(h.f.data))
	}
	end := h.pos + int64(len(b))
	for int64(len(h.f.data)) < end {
		h.f.data = append(h.f.data, uint8(0))
	}
	copy(h.f.data[h.pos:end], b)
	h.pos = end
}

func init() {
	intrinsics["os.Create"] = func(fr *frame, args []value) value {
		return fr.openFile(argString(args[0]), oRDWR|oCREATE|oTRUNC)
	}
	intrinsics["os.Open"] = func(fr *frame, args []value) value {
		return fr.openFile(argString(args[0]), oRDONLY)
	}
	intrinsics["os.OpenFile"] = func(fr *frame, args []value) value {
		return fr.openFile(argString(args[0]), int(asInt64(args[1])))
	}
	intrinsics["os.Remove"] = func(fr *frame, args []value) value {
		fs := fr.p.FS()
		name := argString(args[0])
		f := fs.files[name]
		if f == nil || f.removed {
			return fr.osErr("ErrNotExist", "remove "+name+": no such file or directory")
		}
		fs.mutate()
		f.removed = true
		delete(fs.files, name)
		return iface{}
	}
	intrinsics["os.Rename"] = func(fr *frame, args []value) value {
		fs := fr.p.FS()
		from, to := argString(args[0]), argString(args[1])
		f := fs.files[from]
		if f == nil {
			return fr.osErr("ErrNotExist", "rename "+from+": no such file or directory")
		}
		fs.mutate()
		if old := fs.files[to]; old != nil {
			old.removed = true
		}
		delete(fs.files, from)
		f.name = to
		fs.files[to] = f
		return iface{}
	}
	intrinsics["os.MkdirAll"] = func(fr *frame, args []value) value { return iface{} }
	intrinsics["os.Mkdir"] = func(fr *frame, args []value) value { return iface{} }
	intrinsics["os.ReadFile"] = func(fr *frame, args []value) value {
		fs := fr.p.FS()
		name := argString(args[0])
		f := fs.files[name]
		if f == nil {
			return tuple{[]value(nil), fr.osErr("ErrNotExist", "open "+name+": no such file or directory")}
		}
		return tuple{append([]value(nil), f.data...), iface{}}
	}
	intrinsics["os.WriteFile"] = func(fr *frame, args []value) value {
		fs := fr.p.FS()
		fs.mutate()
		name := argString(args[0])
		fs.files[name] = &memFile{name: name, data: append([]value(nil), args[1].([]value)...)}
		return iface{}
	}
	intrinsics["(*os.File).Name"] = func(fr *frame, args []value) value { return fr.handleOf(args[0]).f.name }
	intrinsics["(*os.File).Close"] = func(fr *frame, args []value) value {
		h := fr.handleOf(args[0])
		if h.closed {
			return fr.osErr("ErrClosed", "close "+h.f.name+": file already closed")
		}
		h.closed = true
		return iface{}
	}
	intrinsics["(*os.File).Sync"] = func(fr *frame, args []value) value {
		h := fr.handleOf(args[0])
		if h.closed {
			return fr.osErr("ErrClosed", "sync "+h.f.name+": file already closed")
		}
		return iface{}
	}
	intrinsics["(*os.File).Read"] = func(fr *frame, args []value) value {
		h := fr.handleOf(args[0])
		fs := fr.p.FS()
		if h.closed {
			fs.badUse = append(fs.badUse, "read of closed file "+h.f.name)
			return tuple{0, fr.osErr("ErrClosed", "read "+h.f.name+": file already closed")}
		}
		b := args[1].([]value)
		if len(b) == 0 {
			return tuple{0, iface{}}
		}
		if h.pos >= int64(len(h.f.data)) {
			return tuple{0, fr.ioEOF()}
		}
		n := copy(b, h.f.data[h.pos:])
		h.pos += int64(n)
		return tuple{n, iface{}}
	}
	intrinsics["(*os.File).ReadAt"] = func(fr *frame, args []value) value {
		h := fr.handleOf(args[0])
		fs := fr.p.FS()
		if h.closed {
			fs.badUse = append(fs.badUse, "read of closed file "+h.f.name)
			return tuple{0, fr.osErr("ErrClosed", "read "+h.f.name+": file already closed")}
		}
		b := args[1].([]value)
		off := asInt64(args[2])
		if off < 0 {
			return tuple{0, fr.makeError("readat "+h.f.name+": negative offset", nil)}
		}
		if off >= int64(len(h.f.data)) {
			if len(b) == 0 {
				return tuple{0, iface{}}
			}
			return tuple{0, fr.ioEOF()}
		}
		n := copy(b, h.f.data[off:])
		if n < len(b) {
			return tuple{n, fr.ioEOF()}
		}
		return tuple{n, iface{}}
	}
	intrinsics["(*os.File).Write"] = func(fr *frame, args []value) value {
		h := fr.handleOf(args[0])
		if h.closed {
			return tuple{0, fr.osErr("ErrClosed", "write "+h.f.name+": file already closed")}
		}
		if h.rdonly {
			return tuple{0, fr.makeError("write "+h.f.name+": bad file descriptor", nil)}
		}
		b := args[1].([]value)
		h.write(fr.p.FS(), b)
		return tuple{len(b), iface{}}
	}
	intrinsics["(*os.File).WriteString"] = func(fr *frame, args []value) value {
		h := fr.handleOf(args[0])
		b := strBytes(args[1])
		h.write(fr.p.FS(), b)
		return tuple{len(b), iface{}}
	}
	intrinsics["(*os.File).WriteAt"] = func(fr *frame, args []value) value {
		h := fr.handleOf(args[0])
		if h.closed {
			return tuple{0, fr.osErr("ErrClosed", "write "+h.f.name+": file already closed")}
		}
		b := args[1].([]value)
		save := h.pos
		h.pos = asInt64(args[2])
		h.write(fr.p.FS(), b)
		h.pos = save
		return tuple{len(b), iface{}}
	}
	intrinsics["(*os.File).ReadFrom"] = func(fr *frame, args []value) value {
		h := fr.handleOf(args[0])
		src := args[1].(iface)
		var readFn *ssa.Function
		ms := fr.i.prog.MethodSets.MethodSet(src.t)
		for k := 0; k < ms.Len(); k++ {
			if sel := ms.At(k); sel.Obj().Name() == "Read" {
				readFn = fr.i.prog.MethodValue(sel)
			}
		}
		if readFn == nil {
			panic(pathEnd{StUnsupported, "os.File.ReadFrom: source without Read"})
		}
		total := int64(0)
		for {
			buf := make([]value, 512)
			for i := range buf {
				buf[i] = uint8(0)
			}
			r := call(fr.i, fr, token.NoPos, readFn, []value{src.v, buf}).(tuple)
			n := int(asInt64(r[0]))
			if n > 0 {
				h.write(fr.p.FS(), buf[:n])
				total += int64(n)
			}
			if err := r[1].(iface); err.t != nil {
				eof := fr.ioEOF().(iface)
				if types.Identical(err.t, eof.t) && err.v == eof.v {
					return tuple{total, iface{}}
				}
				return tuple{total, err}
			}
			if n == 0 {
				return tuple{total, iface{}}
			}
		}
	}
	intrinsics["(*os.File).Seek"] = func(fr *frame, args []value) value {
		h := fr.handleOf(args[0])
		if h.closed {
			return tuple{int64(0), fr.osErr("ErrClosed", "seek "+h.f.name+": file already closed")}
		}
		off, whence := asInt64(args[1]), asInt64(args[2])
		var np int64
		switch whence {
		case 0:
			np = off
		case 1:
			np = h.pos + off
		case 2:
			np = int64(len(h.f.data)) + off
		}
		if np < 0 {
			return tuple{int64(0), fr.makeError("seek "+h.f.name+": invalid argument", nil)}
		}
		h.pos = np
		return tuple{np, iface{}}
	}
	intrinsics["(*os.File).Truncate"] = func(fr *frame, args []value) value {
		h := fr.handleOf(args[0])
		if h.closed {
			return fr.osErr("ErrClosed", "truncate "+h.f.name+": file already closed")
		}
		n := asInt64(args[1])
		fr.p.FS().mutate()
		if n < int64(len(h.f.data)) {
			h.f.data = h.f.data[:n]
		}
		for int64(len(h.f.data)) < n {
			h.f.data = append(h.f.data, uint8(0))
		}
		return iface{}
	}

	// harness access to the model
	intrinsics[zz+"FSFiles"] = func(fr *frame, args []value) value {
		fs := fr.p.FS()
		var names []string
		for n := range fs.files {
			names = append(names, n)
		}
		sort.Strings(names)
		res := make([]value, len(names))
		for i, n := range names {
			res[i] = n
		}
		return res
	}
	intrinsics[zz+"FSSize"] = func(fr *frame, args []value) value {
		f := fr.p.FS().files[argString(args[0])]
		if f == nil {
			return -1
		}
		return len(f.data)
	}
	intrinsics[zz+"FSTruncate"] = func(fr *frame, args []value) value {
		f := fr.p.FS().files[argString(args[0])]
		n := int(asInt64(args[1]))
		if f != nil && n < len(f.data) {
			f.data = f.data[:n]
		}
		return nil
	}
	intrinsics[zz+"FSBadUse"] = func(fr *frame, args []value) value { return len(fr.p.FS().badUse) }
	intrinsics[zz+"FSOps"] = func(fr *frame, args []value) value { return int(fr.p.FS().ops) }
	intrinsics[zz+"FSCrashAfter"] = func(fr *frame, args []value) value {
		fs := fr.p.FS()
		k := asInt64(args[0])
		if k <= 0 {
			fs.crashAt = 0
		} else {
			fs.crashAt = fs.ops + k
		}
		return nil
	}
	intrinsics[zz+"TempDir"] = func(fr *frame, args []value) value { return "/zzfs" }

	// ---------------------------------------------------------------- encoding/binary
	intrinsics["encoding/binary.Read"] = func(fr *frame, args []value) value {
		order := byteOrderBig(args[1])
		data := args[2].(iface)
		n := binSize(data)
		if n < 0 {
			return fr.makeError("binary.Read: invalid type "+data.t.String(), nil)
		}
		buf := make([]value, n)
		for i := range buf {
			buf[i] = uint8(0)
		}
		rf := fr.i.P.Pkgs["io"].Func("ReadFull")
		r := call(fr.i, fr, token.NoPos, rf, []value{args[0], buf}).(tuple)
		if err := r[1].(iface); err.t != nil {
			return err
		}
		binDecodeInto(fr, data, buf, order)
		return iface{}
	}
	intrinsics["encoding/binary.Write"] = func(fr *frame, args []value) value {
		order := byteOrderBig(args[1])
		data := args[2].(iface)
		n := binSize(data)
		if n < 0 {
			return fr.makeError("binary.Write: invalid type "+data.t.String(), nil)
		}
		buf := binEncode(fr, data, order)
		res := writeBytesTo(fr, args[0], buf).(tuple)
		return res[1]
	}
	intrinsics["encoding/binary.Size"] = func(fr *frame, args []value) value { return binSize(args[0].(iface)) }
}

func writeBytesTo(fr *frame, w value, b []value) value {
	itf := w.(iface)
	if itf.t == nil {
		panic(rtPanic("invalid memory address or nil pointer dereference"))
	}
	ms := fr.i.prog.MethodSets.MethodSet(itf.t)
	for k := 0; k < ms.Len(); k++ {
		sel := ms.At(k)
		if sel.Obj().Name() == "Write" {
			fn := fr.i.prog.MethodValue(sel)
			return call(fr.i, fr, token.NoPos, fn, []value{itf.v, b})
		}
	}
	panic(pathEnd{StUnsupported, "binary.Write to a value without Write"})
}

func byteOrderBig(order value) bool {
	itf := order.(iface)
	return itf.t != nil && strings.Contains(itf.t.String(), "bigEndian")
}

// byteView is (*[N]byte)(unsafe.Pointer(&obj)): raw memory of obj, accepted
// only as the destination of binary.Read / source of binary.Write.
type byteView struct {
	p *value
	t types.Type
}

type unsafePtr struct {
	p *value
	t types.Type
}

// binSizeOf returns the encoded size of a value of type t (-1 if not fixed size).
func binSizeOf(t types.Type, v value) int {
	switch u := t.Underlying().(type) {
	case *types.Basic:
		switch u.Kind() {
		case types.Bool, types.Int8, types.Uint8:
			return 1
		case types.Int16, types.Uint16:
			return 2
		case types.Int32, types.Uint32, types.Float32:
			return 4
		case types.Int64, types.Uint64, types.Float64:
			return 8
		}
		return -1
	case *types.Array:
		es := binSizeOf(u.Elem(), nil)
		if es < 0 {
			return -1
		}
		return es * int(u.Len())
	case *types.Struct:
		n := 0
		for i := 0; i < u.NumFields(); i++ {
			fs := binSizeOf(u.Field(i).Type(), nil)
			if fs < 0 {
				return -1
			}
			n += fs
		}
		return n
	case *types.Slice:
		sl, _ := v.([]value)
		es := binSizeOf(u.Elem(), nil)
		if es < 0 {
			return -1
		}
		return es * len(sl)
	}
	return -1
}

func binSize(data iface) int {
	if bv, ok := data.v.(byteView); ok {
		return int(stdSizes.Sizeof(bv.t))
	}
	if pt, ok := data.t.Underlying().(*types.Pointer); ok {
		return binSizeOf(pt.Elem(), nil)
	}
	return binSizeOf(data.t, data.v)
}

func (fr *frame) encodeScalar(t *types.Basic, v value, big bool) []value {
	n := binSizeOf(t, nil)
	out := make([]value, n)
	if b, ok := v.(bool); ok {
		if b {
			out[0] = uint8(1)
		} else {
			out[0] = uint8(0)
		}
		return out
	}
	if s, ok := v.(sym); ok {
		tt := fr.p.tt
		tm := s.t
		if tm.w == 0 {
			out[0] = mkval(types.Typ[types.Uint8], tt.Ite(tm, tt.Const(8, 1), tt.Const(8, 0)))
			return out
		}
		for i := 0; i < n; i++ {
			b := mkval(types.Typ[types.Uint8], tt.Extract(tm, uint8(8*i+7), uint8(8*i)))
			if big {
				out[n-1-i] = b
			} else {
				out[i] = b
			}
		}
		return out
	}
	var x uint64
	switch v := v.(type) {
	case float32, float64:
		panic(pathEnd{StUnsupported, "binary codec: floating point"})
	case int, int8, int16, int32, int64:
		x = uint64(asInt64(v))
	default:
		x = asUint64(v)
	}
	for i := 0; i < n; i++ {
		b := uint8(x >> (8 * uint(i)))
		if big {
			out[n-1-i] = b
		} else {
			out[i] = b
		}
	}
	return out
}

func (fr *frame) encodeValue(t types.Type, v value, big bool) []value {
	switch u := t.Underlying().(type) {
	case *types.Basic:
		return fr.encodeScalar(u, v, big)
	case *types.Array:
		var out []value
		for _, e := range v.(array) {
			out = append(out, fr.encodeValue(u.Elem(), e, big)...)
		}
		return out
	case *types.Struct:
		var out []value
		s := v.(structure)
		for i := 0; i < u.NumFields(); i++ {
			if u.Field(i).Name() == "_" {
				n := binSizeOf(u.Field(i).Type(), nil)
				for k := 0; k < n; k++ {
					out = append(out, uint8(0))
				}
				continue
			}
			out = append(out, fr.encodeValue(u.Field(i).Type(), s[i], big)...)
		}
		return out
	case *types.Slice:
		var out []value
		for _, e := range v.([]value) {
			out = append(out, fr.encodeValue(u.Elem(), e, big)...)
		}
		return out
	}
	panic(pathEnd{StUnsupported, "binary codec: type " + t.String()})
}

func binEncode(fr *frame, data iface, big bool) []value {
	if bv, ok := data.v.(byteView); ok {
		return fr.encodeValue(bv.t, load(bv.t, bv.p), big)
	}
	if pt, ok := data.t.Underlying().(*types.Pointer); ok {
		p := data.v.(*value)
		if p == nil {
			panic(rtPanic("invalid memory address or nil pointer dereference"))
		}
		return fr.encodeValue(pt.Elem(), load(pt.Elem(), p), big)
	}
	return fr.encodeValue(data.t, data.v, big)
}

func (fr *frame) decodeScalar(t *types.Basic, b []value, big bool) value {
	n := len(b)
	allConc := true
	for _, e := range b {
		if _, ok := e.(uint8); !ok {
			allConc = false
		}
	}
	if allConc {
		var x uint64
		for i := 0; i < n; i++ {
			var by uint8
			if big {
				by = b[n-1-i].(uint8)
			} else {
				by = b[i].(uint8)
			}
			x |= uint64(by) << (8 * uint(i))
		}
		if t.Kind() == types.Bool {
			return x != 0
		}
		return concreteOf(t, x)
	}
	tt := fr.p.tt
	var tm *Term
	for i := n - 1; i >= 0; i-- {
		var by value
		if big {
			by = b[n-1-i]
		} else {
			by = b[i]
		}
		bt := fr.p.termOf(by)
		if tm == nil {
			tm = bt
		} else {
			tm = tt.Concat(tm, bt)
		}
	}
	if t.Kind() == types.Bool {
		return mkBool(tt.BNot(tt.Cmp(OpEq, tm, tt.Const(8, 0))))
	}
	return mkval(t, tm)
}

func (fr *frame) decodeValue(t types.Type, b []value, big bool) (value, int) {
	switch u := t.Underlying().(type) {
	case *types.Basic:
		n := binSizeOf(u, nil)
		return fr.decodeScalar(u, b[:n], big), n
	case *types.Array:
		out := make(array, u.Len())
		off := 0
		for i := range out {
			v, n := fr.decodeValue(u.Elem(), b[off:], big)
			out[i] = v
			off += n
		}
		return out, off
	case *types.Struct:
		out := make(structure, u.NumFields())
		off := 0
		for i := range out {
			v, n := fr.decodeValue(u.Field(i).Type(), b[off:], big)
			if u.Field(i).Name() == "_" {
				v = zero(u.Field(i).Type())
			}
			out[i] = v
			off += n
		}
		return out, off
	}
	panic(pathEnd{StUnsupported, "binary codec: type " + t.String()})
}

func binDecodeInto(fr *frame, data iface, buf []value, big bool) {
	if bv, ok := data.v.(byteView); ok {
		v, _ := fr.decodeValue(bv.t, buf, big)
		store(bv.t, bv.p, v)
		return
	}
	switch u := data.t.Underlying().(type) {
	case *types.Pointer:
		p := data.v.(*value)
		v, _ := fr.decodeValue(u.Elem(), buf, big)
		store(u.Elem(), p, v)
	case *types.Slice:
		sl := data.v.([]value)
		off := 0
		for i := range sl {
			v, n := fr.decodeValue(u.Elem(), buf[off:], big)
			switch v.(type) {
			case structure, array:
				store(u.Elem(), &sl[i], v)
			default:
				sl[i] = v
			}
			off += n
		}
	default:
		panic(pathEnd{StUnsupported, "binary.Read into " + data.t.String()})
	}
}

var _ = fmt.Sprint
var _ *ssa.Function
