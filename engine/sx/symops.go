package sx

// Operators on symbolic scalars. Go semantics: wrap-around arithmetic,
// truncated signed division, shifts >= width give 0 / sign fill.

import (
	"fmt"
	"go/token"
	"go/types"

	"golang.org/x/tools/go/ssa"
)

func symBinop(fr *frame, op token.Token, t types.Type, x, y value) (value, bool) {
	_, xs := x.(sym)
	_, ys := y.(sym)
	if !xs && !ys {
		_, xss := x.(symString)
		_, yss := y.(symString)
		if xss || yss {
			return symStringBinop(fr, op, x, y)
		}
		return nil, false
	}
	p := fr.p
	tt := p.tt
	w, signed, ok := intInfo(t)
	if !ok {
		if op == token.EQL || op == token.NEQ {
			return nil, false // aggregate comparison handled by equalsV
		}
		panic(fmt.Sprintf("symBinop: non-integer type %v for %s", t, op))
	}
	a := p.termOf(x)
	switch op {
	case token.SHL, token.SHR:
		b := p.termOf(y)
		// normalise the shift count to width w, saturating at w
		var cnt *Term
		switch {
		case b.w == w:
			cnt = b
		case b.w < w:
			cnt = tt.ZExt(b, w)
		default:
			big := tt.Cmp(OpUle, tt.Const(b.w, uint64(w)), b)
			cnt = tt.Ite(big, tt.Const(w, uint64(w)), tt.Extract(b, w-1, 0))
		}
		var r *Term
		switch {
		case op == token.SHL:
			r = tt.Bin(OpShl, a, cnt)
		case signed:
			r = tt.Bin(OpAShr, a, cnt)
		default:
			r = tt.Bin(OpLShr, a, cnt)
		}
		return mkval(t, r), true
	}
	b := p.termOf(y)
	if w == 0 {
		// booleans: only == and != reach here
		switch op {
		case token.EQL:
			return mkBool(tt.BEq(a, b)), true
		case token.NEQ:
			return mkBool(tt.BNot(tt.BEq(a, b))), true
		}
		panic("symBinop: bad bool op " + op.String())
	}
	switch op {
	case token.ADD:
		return mkval(t, tt.Bin(OpAdd, a, b)), true
	case token.SUB:
		return mkval(t, tt.Bin(OpSub, a, b)), true
	case token.MUL:
		return mkval(t, tt.Bin(OpMul, a, b)), true
	case token.QUO, token.REM:
		if b.op != OpConst {
			if p.decideBool(tt.Cmp(OpEq, b, tt.Const(w, 0))) {
				panic(rtPanic("integer divide by zero"))
			}
		} else if b.c == 0 {
			panic(rtPanic("integer divide by zero"))
		}
		var o Op
		switch {
		case op == token.QUO && signed:
			o = OpSDiv
		case op == token.QUO:
			o = OpUDiv
		case signed:
			o = OpSRem
		default:
			o = OpURem
		}
		return mkval(t, tt.Bin(o, a, b)), true
	case token.AND:
		return mkval(t, tt.Bin(OpAnd, a, b)), true
	case token.OR:
		return mkval(t, tt.Bin(OpOr, a, b)), true
	case token.XOR:
		return mkval(t, tt.Bin(OpXor, a, b)), true
	case token.AND_NOT:
		return mkval(t, tt.Bin(OpAnd, a, tt.Un(OpNot, b))), true
	case token.EQL:
		return mkBool(tt.Cmp(OpEq, a, b)), true
	case token.NEQ:
		return mkBool(tt.BNot(tt.Cmp(OpEq, a, b))), true
	case token.LSS:
		if signed {
			return mkBool(tt.Cmp(OpSlt, a, b)), true
		}
		return mkBool(tt.Cmp(OpUlt, a, b)), true
	case token.LEQ:
		if signed {
			return mkBool(tt.Cmp(OpSle, a, b)), true
		}
		return mkBool(tt.Cmp(OpUle, a, b)), true
	case token.GTR:
		if signed {
			return mkBool(tt.Cmp(OpSlt, b, a)), true
		}
		return mkBool(tt.Cmp(OpUlt, b, a)), true
	case token.GEQ:
		if signed {
			return mkBool(tt.Cmp(OpSle, b, a)), true
		}
		return mkBool(tt.Cmp(OpUle, b, a)), true
	}
	panic("symBinop: unsupported op " + op.String())
}

func symStringBinop(fr *frame, op token.Token, x, y value) (value, bool) {
	p := fr.p
	switch op {
	case token.ADD:
		xb, yb := strBytes(x), strBytes(y)
		r := make([]value, 0, len(xb)+len(yb))
		r = append(r, xb...)
		r = append(r, yb...)
		return mkString(r), true
	case token.EQL, token.NEQ:
		return nil, false
	case token.LSS, token.LEQ, token.GTR, token.GEQ:
		xb, yb := strBytes(x), strBytes(y)
		if op == token.GTR || op == token.GEQ {
			xb, yb = yb, xb
			if op == token.GTR {
				op = token.LSS
			} else {
				op = token.LEQ
			}
		}
		// lexicographic x < y (or <=) as a term, from the back
		tt := p.tt
		n := len(xb)
		if len(yb) < n {
			n = len(yb)
		}
		var tail *Term
		if op == token.LSS {
			tail = tt.Bool(len(xb) < len(yb))
		} else {
			tail = tt.Bool(len(xb) <= len(yb))
		}
		for i := n - 1; i >= 0; i-- {
			a, b := p.termOf(xb[i]), p.termOf(yb[i])
			tail = tt.Ite(tt.Cmp(OpUlt, a, b), tt.Bool(true), tt.Ite(tt.Cmp(OpEq, a, b), tail, tt.Bool(false)))
		}
		return mkBool(tail), true
	}
	panic("symStringBinop: unsupported op " + op.String())
}

func symUnop(fr *frame, instr *ssa.UnOp, x sym) value {
	tt := fr.p.tt
	switch instr.Op {
	case token.NOT:
		return mkBool(tt.BNot(x.t))
	case token.SUB:
		return mkval(instr.Type(), tt.Un(OpNeg, x.t))
	case token.XOR:
		return mkval(instr.Type(), tt.Un(OpNot, x.t))
	}
	panic(fmt.Sprintf("symUnop: invalid op %s", instr.Op))
}

// symConv handles conversions whose operand is (or contains) symbolic data.
func symConv(fr *frame, utDst, utSrc types.Type, x value) (value, bool) {
	switch x := x.(type) {
	case sym:
		dw, _, ok := intInfo(utDst)
		if !ok || dw == 0 {
			if b, isB := utDst.(*types.Basic); isB && b.Kind() == types.String {
				// string(rune) of a symbolic integer: concretise
				v := fr.concInt(x, 256)
				return string(rune(v)), true
			}
			if b, isB := utDst.(*types.Basic); isB && b.Info()&types.IsFloat != 0 {
				_, ssigned, _ := intInfo(utSrc)
				v := fr.p.decideValue(x.t, 64)
				if ssigned {
					return conv(fr, utDst, utSrc, concreteOf(utSrc, v)), true
				}
				return conv(fr, utDst, utSrc, concreteOf(utSrc, v)), true
			}
			panic(fmt.Sprintf("symConv: unsupported conversion of symbolic %v -> %v", utSrc, utDst))
		}
		sw, ssigned, _ := intInfo(utSrc)
		tt := fr.p.tt
		var r *Term
		switch {
		case dw == sw:
			r = x.t
		case dw < sw:
			r = tt.Extract(x.t, dw-1, 0)
		case ssigned:
			r = tt.SExt(x.t, dw)
		default:
			r = tt.ZExt(x.t, dw)
		}
		return mkval(utDst, r), true
	case symString:
		switch d := utDst.(type) {
		case *types.Slice:
			if d.Elem().Underlying().(*types.Basic).Kind() == types.Byte {
				r := make([]value, len(x))
				copy(r, x)
				return r, true
			}
			panic("symConv: symbolic string to []rune unsupported")
		case *types.Basic:
			if d.Kind() == types.String {
				return x, true
			}
		}
		panic(fmt.Sprintf("symConv: unsupported conversion of symbolic string -> %v", utDst))
	}
	return nil, false
}

func symMinMax(fr *frame, fn *ssa.Builtin, args []value, isMin bool) value {
	anySym := false
	for _, a := range args {
		if isSym(a) {
			anySym = true
		}
	}
	if !anySym {
		if isMin {
			return foldLeft(min, args)
		}
		return foldLeft(max, args)
	}
	t := fn.Type().(*types.Signature).Params().At(0).Type()
	_, signed, _ := intInfo(t)
	p := fr.p
	acc := p.termOf(args[0])
	for _, a := range args[1:] {
		b := p.termOf(a)
		var lt *Term
		if signed {
			lt = p.tt.Cmp(OpSlt, acc, b)
		} else {
			lt = p.tt.Cmp(OpUlt, acc, b)
		}
		if isMin {
			acc = p.tt.Ite(lt, acc, b)
		} else {
			acc = p.tt.Ite(lt, b, acc)
		}
	}
	return mkval(t, acc)
}
