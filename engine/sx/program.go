package sx

// Loading /repo (+ overlay harness files) into SSA, package initialisation,
// and the parallel path exploration driver.

import (
	"fmt"
	"go/token"
	"go/types"
	"os"
	"sort"
	"strings"
	"sync"
	"time"

	"golang.org/x/tools/go/packages"
	"golang.org/x/tools/go/ssa"
	"golang.org/x/tools/go/ssa/ssautil"
)

const RepoModule = "github.com/spq/pkappa2"

type Program struct {
	Prog     *ssa.Program
	Fset     *token.FileSet
	Pkgs     map[string]*ssa.Package
	repoFn   sync.Map // *ssa.Function -> bool
	harnFn   sync.Map
	LoadTime time.Duration
}

// Load type-checks the given package patterns of the repository with the
// overlay applied and builds SSA for the whole program.
func Load(repoDir string, overlay map[string][]byte, patterns []string) (*Program, error) {
	start := time.Now()
	cfg := &packages.Config{
		Mode:       packages.LoadAllSyntax,
		Dir:        repoDir,
		Overlay:    overlay,
		BuildFlags: []string{"-tags=verif"},
		Env:        append(os.Environ(), "GOFLAGS=-mod=mod", "GOPROXY=off", "GOSUMDB=off", "GOTOOLCHAIN=local", "CGO_ENABLED=1"),
	}
	initial, err := packages.Load(cfg, patterns...)
	if err != nil {
		return nil, err
	}
	var errs []string
	packages.Visit(initial, nil, func(p *packages.Package) {
		for _, e := range p.Errors {
			if strings.HasPrefix(p.PkgPath, RepoModule) {
				errs = append(errs, e.Error())
			}
		}
	})
	if len(errs) > 0 {
		return nil, fmt.Errorf("load errors:\n%s", strings.Join(errs, "\n"))
	}
	prog, _ := ssautil.AllPackages(initial, ssa.InstantiateGenerics)
	prog.Build()
	P := &Program{Prog: prog, Fset: prog.Fset, Pkgs: map[string]*ssa.Package{}}
	for _, pkg := range prog.AllPackages() {
		P.Pkgs[pkg.Pkg.Path()] = pkg
	}
	P.LoadTime = time.Since(start)
	return P, nil
}

// isRepoFn reports whether fn is code of the repository proper (not harness
// files, not dependencies).
func (P *Program) isRepoFn(fn *ssa.Function) bool {
	if v, ok := P.repoFn.Load(fn); ok {
		return v.(bool)
	}
	res := false
	f := fn
	for f.Parent() != nil {
		f = f.Parent()
	}
	if f.Origin() != nil {
		f = f.Origin()
	}
	var pkg *types.Package
	if f.Pkg != nil {
		pkg = f.Pkg.Pkg
	} else if f.Object() != nil {
		pkg = f.Object().Pkg()
	} else if recv := f.Signature.Recv(); recv != nil {
		if n, ok := derefNamed(recv.Type()); ok && n.Obj() != nil {
			pkg = n.Obj().Pkg()
		}
	}
	if pkg != nil && strings.HasPrefix(pkg.Path(), RepoModule) && !strings.HasSuffix(pkg.Path(), "/zzverif") {
		res = true
		if pos := fn.Pos(); pos != token.NoPos {
			file := P.Fset.Position(pos).Filename
			if strings.Contains(file, "zz_verif") {
				res = false
			}
		}
	}
	P.repoFn.Store(fn, res)
	return res
}

// isHarnessFn reports whether fn is harness code (zz_verif files): exempt from loop bounds.
func (P *Program) isHarnessFn(fn *ssa.Function) bool {
	if v, ok := P.harnFn.Load(fn); ok {
		return v.(bool)
	}
	res := false
	f := fn
	for f.Parent() != nil {
		f = f.Parent()
	}
	if pos := f.Pos(); pos != token.NoPos {
		res = strings.Contains(P.Fset.Position(pos).Filename, "zz_verif") || strings.Contains(P.Fset.Position(pos).Filename, "/zzverif/")
	}
	P.harnFn.Store(fn, res)
	return res
}

func derefNamed(t types.Type) (*types.Named, bool) {
	if p, ok := t.(*types.Pointer); ok {
		t = p.Elem()
	}
	n, ok := t.(*types.Named)
	return n, ok
}

// initAllowed lists the packages whose init functions are executed.
func initAllowed(path string) bool {
	if strings.HasPrefix(path, RepoModule) {
		return true
	}
	switch path {
	case "io", "io/fs", "internal/oserror", "unicode", "unicode/utf8", "unicode/utf16",
		"strconv", "sort", "slices", "strings", "bytes", "math", "math/bits", "time", "bufio",
		"regexp", "regexp/syntax", "rsc.io/binaryregexp", "rsc.io/binaryregexp/syntax",
		"encoding/binary", "context", "path", "path/filepath", "os", "cmp", "maps", "iter",
		"container/heap", "container/list", "encoding/hex", "encoding/base64",
		"internal/bytealg", "internal/byteorder", "internal/itoa", "internal/stringslite",
		"hash", "fmt", "internal/fmtsort", "net", "flag", "net/url", "net/textproto", "mime", "html", "text/template/parse",
		"github.com/gopacket/gopacket/layers", "github.com/gopacket/gopacket":
		return true
	}
	return false
}

// HarnessCfg configures the exploration of one harness function.
type HarnessCfg struct {
	Pkg             string // import path of the package holding the harness
	Func            string
	Workers         int
	MaxPaths        int
	SolverTimeoutMS int
	Solver          string
	LoopBound       int
	MaxInstr        int64
	MaxDeviations   int
	Deadline        time.Duration
	SampleModels    int  // number of passing paths for which a model + observations are kept
	StopOnViolation bool // stop exploring after the first violation
	StopAfterViolations int
	DumpDir         string
	Seed            int64
	Profile         bool
}

type FnStat struct {
	Calls int `json:"calls"`
	Instr int `json:"instrs"`
}

type PathSample struct {
	Decisions    []int64           `json:"decisions"`
	Model        map[string]uint64 `json:"model"`
	Observations []string          `json:"observations,omitempty"`
	Status       string            `json:"status"`
}

type Result struct {
	Harness      string
	Paths        int
	ByStatus     map[string]int
	Violations   []Violation
	ViolationPaths int
	Transitions  int
	Obligations  int
	Discharged   int
	Covers       map[string]int
	AssertsSeen  map[string]int
	Functions    map[string]FnStat
	RepoInstr    int64
	TotalInstr   int64
	Solver       SolverStats
	Samples      []PathSample
	Unknowns     int
	Incomplete   bool
	Problems     []string // unsupported / engine errors / inconclusive messages (deduplicated)
	Wall         time.Duration
	MaxPathInstr int64
	Profile      map[string]int64
}

type pathResult struct {
	status      PathStatus
	msg         string
	newWork     [][]int64
	violation   *Violation
	p           *pathState
	sample      *PathSample
}

type worker struct {
	i *interpreter
}

func newInterpreter(P *Program, kind string, timeoutMS int) *interpreter {
	i := &interpreter{
		P:         P,
		prog:      P.Prog,
		globals:   make(map[*ssa.Global]*value),
		intrCache: make(map[*ssa.Function]intrinsic),
	}
	if rt := P.Prog.ImportedPackage("runtime"); rt != nil {
		i.runtimeErrorString = rt.Type("errorString").Object().Type()
	}
	i.solver = NewSolver(kind, timeoutMS)
	return i
}

// resetRepoGlobals zeroes the globals of repository packages so that their
// init functions run afresh for every path.
func (i *interpreter) resetRepoGlobals() {
	for g, cell := range i.globals {
		if g.Pkg != nil && strings.HasPrefix(g.Pkg.Pkg.Path(), RepoModule) {
			*cell = zero(deref(g.Type()))
		}
	}
}

// runPkgInit executes a package initializer subject to the allow list and
// tolerating unsupported operations inside it.
func (i *interpreter) runPkgInit(caller *frame, fn *ssa.Function) {
	path := fn.Pkg.Pkg.Path()
	if !initAllowed(path) {
		return
	}
	p := i.path
	defer func() {
		if r := recover(); r != nil {
			pe, ok := r.(pathEnd)
			if ok && (pe.status == StUnsupported || pe.status == StEngineError) {
				p.initProblems = append(p.initProblems, path+": "+firstLine(pe.msg))
				p.depth = 0
				return
			}
			if !ok {
				if s := panicString(i, r); s != "" {
					p.initProblems = append(p.initProblems, path+": panic: "+firstLine(s))
					p.depth = 0
					return
				}
			}
			panic(r)
		}
	}()
	callSSABody(i, caller, fn, nil, nil)
}

func firstLine(s string) string {
	if k := strings.IndexByte(s, '\n'); k >= 0 {
		return s[:k]
	}
	return s
}

func panicString(i *interpreter, r any) string {
	switch r := r.(type) {
	case targetPanic:
		if itf, ok := r.v.(iface); ok {
			if s, ok := itf.v.(string); ok {
				return s
			}
			if itf.t != nil {
				// error or Stringer values: try calling Error()
				if s, ok := i.tryErrorString(itf); ok {
					return s
				}
				return fmt.Sprintf("(%s) %s", itf.t, toString(itf.v))
			}
		}
		return toString(r.v)
	case rtPanic:
		return "runtime error: " + string(r)
	case string:
		return r
	case pathEnd:
		return r.msg
	}
	return fmt.Sprint(r)
}

func (i *interpreter) tryErrorString(itf iface) (s string, ok bool) {
	defer func() {
		if r := recover(); r != nil {
			ok = false
		}
	}()
	for _, name := range []string{"Error", "String"} {
		ms := i.prog.MethodSets.MethodSet(itf.t)
		for k := 0; k < ms.Len(); k++ {
			sel := ms.At(k)
			if sel.Obj().Name() == name {
				fn := i.prog.MethodValue(sel)
				if fn == nil {
					continue
				}
				if sig := fn.Signature; sig.Params().Len() == 0 && sig.Results().Len() == 1 {
					r := call(i, &frame{i: i, p: i.path}, token.NoPos, fn, []value{itf.v})
					if str, isStr := r.(string); isStr {
						return str, true
					}
				}
			}
		}
	}
	return "", false
}

// runPath executes the harness once along the given decision prefix.
func (i *interpreter) runPath(h *ssa.Function, prefix []int64, cfg *HarnessCfg, wantSample bool) (res pathResult) {
	p := &pathState{
		i: i, tt: NewTermTable(), solver: i.solver, prefix: prefix,
		nondetCount: map[string]int{}, maxInstr: cfg.MaxInstr, loopBound: cfg.LoopBound,
		covers: map[string]int{}, assertsSeen: map[string]int{}, fnCalls: map[*ssa.Function]int{},
		counters: map[string]int64{}, ext: map[string]any{}, known: map[*Term]bool{}, maxDeviations: cfg.MaxDeviations,
	}
	if cfg.Profile {
		p.profile = map[*ssa.Function]int64{}
	}
	i.path = p
	i.overrides = nil
	i.solver.BeginPath()
	g0 := &gor{id: 0, wake: make(chan bool), started: true, what: "harness"}
	p.gs = []*gor{g0}
	p.cur = g0
	res.p = p
	defer func() {
		p.killAll()
		i.solver.EndPath()
	}()
	i.resetRepoGlobals()

	status, msg := StOK, ""
	func() {
		defer func() {
			r := recover()
			if r == nil {
				return
			}
			if pe, ok := r.(pathEnd); ok {
				status, msg = pe.status, pe.msg
				return
			}
			r = classifyPanicNoThrow(r)
			if pe, ok := r.(pathEnd); ok {
				status, msg = pe.status, pe.msg
				return
			}
			status, msg = StPanic, panicString(i, r)
		}()
		root := &frame{i: i, p: p, g: g0}
		p.initPhase = true
		call(i, root, token.NoPos, h.Pkg.Func("init"), nil)
		p.initPhase = false
		p.panicSite, p.panicLive = "", false
		p.instrCount = 0
		p.repoInstr = 0
		call(i, root, token.NoPos, h, nil)
	}()
	if p.pendingViolation != nil && status == StViolation {
		res.violation = p.pendingViolation
	}
	if status == StPanic {
		if p.expectPanic != "" && strings.Contains(msg, p.expectPanic) {
			status = StOK
		} else if p.pos < len(p.prefix) {
			status, msg = StEngineError, "panic before the decision prefix was consumed: "+msg
		} else {
			r, m := p.model(nil)
			if r == Sat {
				res.violation = &Violation{Kind: "panic", Label: "panic", Msg: msg, Site: p.panicSite, Model: m, Decisions: append([]int64(nil), p.decisions...)}
			} else {
				status, msg = StInconclusive, "no model for panic path: "+msg
			}
		}
	}
	if (status == StBound && p.boundIsViolation) || (status == StDeadlock && p.deadlockIsViolation) {
		r, m := p.model(nil)
		if r == Sat {
			kind := "bound"
			if status == StDeadlock {
				kind = "deadlock"
			}
			res.violation = &Violation{Kind: kind, Label: kind, Msg: msg, Model: m, Decisions: append([]int64(nil), p.decisions...)}
		}
	}
	if status == StOK && p.pos < len(p.prefix) {
		status, msg = StEngineError, fmt.Sprintf("non-deterministic replay: %d of %d prefix decisions consumed", p.pos, len(p.prefix))
	}
	if status == StOK && wantSample {
		if r, m := p.model(nil); r == Sat {
			s := &PathSample{Decisions: append([]int64(nil), p.decisions...), Model: m, Status: status.String()}
			memo := map[*Term]uint64{}
			for _, o := range p.obs {
				s.Observations = append(s.Observations, o.render(m, memo))
			}
			res.sample = s
		}
	}
	res.status, res.msg, res.newWork = status, msg, p.newWork
	return res
}

// Explore runs the harness over all feasible paths.
func Explore(P *Program, cfg HarnessCfg) *Result {
	start := time.Now()
	if cfg.Workers <= 0 {
		cfg.Workers = 16
	}
	if cfg.SolverTimeoutMS == 0 {
		cfg.SolverTimeoutMS = 10000
	}
	if cfg.LoopBound == 0 {
		cfg.LoopBound = 10000
	}
	if cfg.MaxInstr == 0 {
		cfg.MaxInstr = 50_000_000
	}
	if cfg.MaxPaths == 0 {
		cfg.MaxPaths = 1_000_000
	}
	res := &Result{Harness: cfg.Pkg + "." + cfg.Func, ByStatus: map[string]int{}, Covers: map[string]int{},
		AssertsSeen: map[string]int{}, Functions: map[string]FnStat{}}
	pkg := P.Pkgs[cfg.Pkg]
	if pkg == nil {
		res.Problems = append(res.Problems, "package not loaded: "+cfg.Pkg)
		res.Incomplete = true
		return res
	}
	h := pkg.Func(cfg.Func)
	if h == nil {
		res.Problems = append(res.Problems, "harness not found: "+cfg.Func)
		res.Incomplete = true
		return res
	}

	var mu sync.Mutex
	cond := sync.NewCond(&mu)
	work := [][]int64{nil}
	active := 0
	stop := false
	problems := map[string]int{}
	fnStats := map[*ssa.Function]int{}
	samplesWanted := cfg.SampleModels
	violPerLabel := map[string]int{}

	var wg sync.WaitGroup
	for w := 0; w < cfg.Workers; w++ {
		wg.Add(1)
		go func(wid int) {
			defer wg.Done()
			var in *interpreter
			defer func() {
				if in != nil {
					mu.Lock()
					res.Solver.Add(in.solver.Stats)
					mu.Unlock()
					in.solver.Close()
				}
			}()
			for {
				mu.Lock()
				for len(work) == 0 && active > 0 && !stop {
					cond.Wait()
				}
				if stop || len(work) == 0 {
					mu.Unlock()
					cond.Broadcast()
					return
				}
				prefix := work[len(work)-1]
				work = work[:len(work)-1]
				active++
				wantSample := samplesWanted > 0
				if wantSample {
					samplesWanted--
				}
				mu.Unlock()

				if in == nil {
					in = newInterpreter(P, cfg.Solver, cfg.SolverTimeoutMS)
					in.solver.DumpDir = cfg.DumpDir
				}
				pr := in.runPath(h, prefix, &cfg, wantSample)

				mu.Lock()
				active--
				res.Paths++
				res.ByStatus[pr.status.String()]++
				p := pr.p
				res.Transitions += p.transitions
				res.Obligations += p.obligations
				res.Discharged += p.discharged
				res.Unknowns += p.unknowns
				res.RepoInstr += p.repoInstr
				res.TotalInstr += p.instrCount
				if p.instrCount > res.MaxPathInstr {
					res.MaxPathInstr = p.instrCount
				}
				for k, v := range p.covers {
					res.Covers[k] += v
				}
				for k, v := range p.assertsSeen {
					res.AssertsSeen[k] += v
				}
				for f, c := range p.fnCalls {
					fnStats[f] += c
				}
				for f, c := range p.profile {
					if res.Profile == nil {
						res.Profile = map[string]int64{}
					}
					res.Profile[f.String()] += c
				}
				for _, ip := range p.initProblems {
					problems["init: "+ip]++
				}
				if pr.sample != nil && len(res.Samples) < cfg.SampleModels {
					res.Samples = append(res.Samples, *pr.sample)
				} else if wantSample && pr.sample == nil {
					samplesWanted++
				}
				switch pr.status {
				case StViolation, StPanic:
					if pr.violation != nil {
						violPerLabel[pr.violation.Label]++
						if len(res.Violations) < 50 && violPerLabel[pr.violation.Label] <= 3 {
							res.Violations = append(res.Violations, *pr.violation)
						}
						res.ViolationPaths++
						if cfg.StopOnViolation || (cfg.StopAfterViolations > 0 && res.ViolationPaths >= cfg.StopAfterViolations) {
							stop = true
						}
					} else {
						problems[pr.status.String()+": "+firstLine(pr.msg)]++
					}
				case StBound, StDeadlock:
					if pr.violation != nil {
						if len(res.Violations) < 50 {
							res.Violations = append(res.Violations, *pr.violation)
						}
					} else {
						problems[pr.status.String()+": "+firstLine(pr.msg)]++
					}
				case StUnsupported, StInconclusive, StEngineError, StKilled:
					m := pr.msg
					if pr.status != StEngineError {
						m = firstLine(m)
					}
					problems[pr.status.String()+": "+m]++
				}
				work = append(work, pr.newWork...)
				if res.Paths >= cfg.MaxPaths || (cfg.Deadline > 0 && time.Since(start) > cfg.Deadline) {
					if len(work) > 0 || active > 0 {
						res.Incomplete = true
					}
					stop = true
				}
				mu.Unlock()
				cond.Broadcast()
			}
		}(w)
	}
	wg.Wait()
	if len(work) > 0 && !cfg.StopOnViolation && !(cfg.StopAfterViolations > 0 && res.ViolationPaths >= cfg.StopAfterViolations) {
		res.Incomplete = true
	}
	for f, c := range fnStats {
		n := 0
		for _, b := range f.Blocks {
			n += len(b.Instrs)
		}
		res.Functions[f.String()] = FnStat{Calls: c, Instr: n}
	}
	var keys []string
	for k := range problems {
		keys = append(keys, k)
	}
	sort.Strings(keys)
	for _, k := range keys {
		res.Problems = append(res.Problems, fmt.Sprintf("%s (x%d)", k, problems[k]))
	}
	res.Wall = time.Since(start)
	return res
}
