// Forked from golang.org/x/tools/go/ssa/interp (see LICENSE.xtools) and
// rewritten as a symbolic executor: re-execution based path exploration,
// symbolic scalars, solver-decided branches.
//
// Copyright 2013 The Go Authors. All rights reserved.
// Use of this source code is governed by a BSD-style
// license that can be found in the LICENSE file.

package sx

import (
	"fmt"
	"go/token"
	"go/types"
	"runtime"
	"slices"
	"strings"

	"golang.org/x/tools/go/ssa"
)

type continuation int

const (
	kNext continuation = iota
	kReturn
	kJump
)

// PathStatus says how a path ended.
type PathStatus int

const (
	StOK PathStatus = iota
	StViolation
	StPanic
	StBound
	StUnsupported
	StInconclusive
	StAssumeFalse
	StInfeasible
	StEngineError
	StDeadlock
	StKilled
)

var statusNames = [...]string{"ok", "violation", "panic", "bound", "unsupported", "inconclusive", "assume-false", "infeasible", "engine-error", "deadlock", "killed"}

func (s PathStatus) String() string { return statusNames[s] }

// pathEnd is the Go panic value used to unwind the interpreter when a path
// ends for a reason other than a normal return. Never visible to recover().
type pathEnd struct {
	status PathStatus
	msg    string
}

// rtPanic is a Go run-time error raised by the target program.
type rtPanic string

func (r rtPanic) Error() string { return "runtime error: " + string(r) }

type intrinsic func(fr *frame, args []value) value

// interpreter: per-worker state.
type interpreter struct {
	P                  *Program
	prog               *ssa.Program
	globals            map[*ssa.Global]*value
	sharedGlobals      map[*ssa.Global]*value // initialised once per worker (std packages)
	runtimeErrorString types.Type
	solver             *Solver
	path               *pathState
	intrCache          map[*ssa.Function]intrinsic
	overrides          map[string]value // per-harness function overrides (name -> fn value)
}

type deferred struct {
	fn    value
	args  []value
	instr *ssa.Defer
	tail  *deferred
}

type frame struct {
	i                *interpreter
	p                *pathState
	g                *gor
	caller           *frame
	fn               *ssa.Function
	block, prevBlock *ssa.BasicBlock
	env              map[ssa.Value]value
	locals           []value
	defers           *deferred
	result           value
	panicking        bool
	panic            any
	phitemps         []value
	backEdges        map[*ssa.BasicBlock]int
	inRepo           bool
	cur              ssa.Instruction
	depthAt          int
}

func (fr *frame) get(key ssa.Value) value {
	switch key := key.(type) {
	case nil:
		return nil
	case *ssa.Function:
		if ov := fr.i.overrideFor(key); ov != nil {
			return ov
		}
		return key
	case *ssa.Builtin:
		return key
	case *ssa.Const:
		return constValue(key)
	case *ssa.Global:
		if r, ok := fr.i.globals[key]; ok {
			return r
		}
		return fr.i.globalLazy(key)
	}
	if r, ok := fr.env[key]; ok {
		return r
	}
	panic(fmt.Sprintf("get: no value for %T: %v", key, key.Name()))
}

func (i *interpreter) overrideFor(fn *ssa.Function) value {
	if len(i.overrides) == 0 {
		return nil
	}
	if ov, ok := i.overrides[fn.String()]; ok {
		return ov
	}
	return nil
}

func (i *interpreter) globalLazy(g *ssa.Global) *value {
	cell := zero(deref(g.Type()))
	i.globals[g] = &cell
	return &cell
}

func deref(t types.Type) types.Type {
	return t.Underlying().(*types.Pointer).Elem()
}

func (fr *frame) runDefer(d *deferred) {
	var ok bool
	defer func() {
		if !ok {
			r := recover()
			if pe, isEnd := r.(pathEnd); isEnd {
				panic(pe)
			}
			fr.panicking = true
			fr.panic = r
		}
	}()
	call(fr.i, fr, d.instr.Pos(), d.fn, d.args)
	ok = true
}

func (fr *frame) runDefers() {
	for d := fr.defers; d != nil; d = d.tail {
		fr.runDefer(d)
	}
	fr.defers = nil
	if fr.panicking {
		panic(fr.panic)
	}
}

func lookupMethod(i *interpreter, typ types.Type, meth *types.Func) *ssa.Function {
	return i.prog.LookupMethod(typ, meth.Pkg(), meth.Name())
}

func (fr *frame) unsupported(format string, args ...any) {
	panic(pathEnd{StUnsupported, fmt.Sprintf(format, args...) + " in " + fr.fn.String()})
}

// visitInstr interprets a single instruction.
func visitInstr(fr *frame, instr ssa.Instruction) continuation {
	p := fr.p
	switch instr := instr.(type) {
	case *ssa.DebugRef:
		// no-op

	case *ssa.UnOp:
		fr.env[instr] = unop(fr, instr, fr.get(instr.X))

	case *ssa.BinOp:
		fr.env[instr] = binop(fr, instr.Op, instr.X.Type(), fr.get(instr.X), fr.get(instr.Y))

	case *ssa.Call:
		fn, args := prepareCall(fr, &instr.Call)
		fr.env[instr] = call(fr.i, fr, instr.Pos(), fn, args)

	case *ssa.ChangeInterface:
		fr.env[instr] = fr.get(instr.X)

	case *ssa.ChangeType:
		fr.env[instr] = fr.get(instr.X)

	case *ssa.Convert:
		fr.env[instr] = conv(fr, instr.Type(), instr.X.Type(), fr.get(instr.X))

	case *ssa.SliceToArrayPointer:
		fr.env[instr] = sliceToArrayPointer(instr.Type(), instr.X.Type(), fr.get(instr.X))

	case *ssa.MakeInterface:
		fr.env[instr] = iface{t: instr.X.Type(), v: fr.get(instr.X)}

	case *ssa.Extract:
		fr.env[instr] = fr.get(instr.Tuple).(tuple)[instr.Index]

	case *ssa.Slice:
		fr.env[instr] = slice(fr, fr.get(instr.X), fr.get(instr.Low), fr.get(instr.High), fr.get(instr.Max))

	case *ssa.Return:
		switch len(instr.Results) {
		case 0:
		case 1:
			fr.result = fr.get(instr.Results[0])
		default:
			res := make([]value, 0, len(instr.Results))
			for _, r := range instr.Results {
				res = append(res, fr.getLate(instr, r))
			}
			fr.result = tuple(res)
		}
		fr.block = nil
		return kReturn

	case *ssa.RunDefers:
		fr.runDefers()

	case *ssa.Panic:
		panic(targetPanic{fr.get(instr.X)})

	case *ssa.Send:
		chanSend(fr, fr.get(instr.Chan).(*channel), fr.get(instr.X))

	case *ssa.Store:
		addr := fr.get(instr.Addr).(*value)
		if addr == nil {
			panic(rtPanic("invalid memory address or nil pointer dereference"))
		}
		store(deref(instr.Addr.Type()), addr, fr.get(instr.Val))

	case *ssa.If:
		succ := 1
		switch c := fr.get(instr.Cond).(type) {
		case bool:
			if c {
				succ = 0
			}
		case sym:
			if p.decideBool(c.t) {
				succ = 0
			}
		}
		fr.jump(fr.block.Succs[succ])
		return kJump

	case *ssa.Jump:
		fr.jump(fr.block.Succs[0])
		return kJump

	case *ssa.Defer:
		fn, args := prepareCall(fr, &instr.Call)
		defers := &fr.defers
		if into := fr.get(instr.DeferStack); into != nil {
			defers = into.(**deferred)
		}
		*defers = &deferred{fn: fn, args: args, instr: instr, tail: *defers}

	case *ssa.Go:
		fn, args := prepareCall(fr, &instr.Call)
		spawn(fr, instr.Pos(), fn, args)

	case *ssa.MakeChan:
		fr.env[instr] = newChannel(p, int(fr.concInt(fr.get(instr.Size), 64)))

	case *ssa.Alloc:
		var addr *value
		if instr.Heap {
			addr = new(value)
			fr.env[instr] = addr
		} else {
			addr = fr.env[instr].(*value)
		}
		*addr = zero(deref(instr.Type()))

	case *ssa.MakeSlice:
		c := fr.concInt(fr.get(instr.Cap), 1<<16)
		l := fr.concInt(fr.get(instr.Len), 1<<16)
		if l < 0 || c < l {
			panic(rtPanic("makeslice: len out of range"))
		}
		if c > 1<<26 {
			fr.unsupported("MakeSlice of %d elements", c)
		}
		sl := make([]value, c)
		tElt := instr.Type().Underlying().(*types.Slice).Elem()
		z := zero(tElt)
		switch z.(type) {
		case structure, array:
			for i := range sl {
				sl[i] = zero(tElt)
			}
		default:
			for i := range sl {
				sl[i] = z
			}
		}
		fr.env[instr] = sl[:l]

	case *ssa.MakeMap:
		fr.env[instr] = makeMap(instr.Type().Underlying().(*types.Map).Key(), 0)

	case *ssa.Range:
		fr.env[instr] = rangeIter(fr, fr.get(instr.X))

	case *ssa.Next:
		fr.env[instr] = fr.get(instr.Iter).(iter).next()

	case *ssa.FieldAddr:
		x := fr.get(instr.X).(*value)
		if x == nil {
			panic(rtPanic("invalid memory address or nil pointer dereference"))
		}
		fr.env[instr] = &(*x).(structure)[instr.Field]

	case *ssa.Field:
		fr.env[instr] = fr.get(instr.X).(structure)[instr.Field]

	case *ssa.IndexAddr:
		x := fr.get(instr.X)
		idx := fr.get(instr.Index)
		switch x := x.(type) {
		case []value:
			fr.env[instr] = &x[fr.index(idx, len(x))]
		case *value: // *array
			if x == nil {
				panic(rtPanic("invalid memory address or nil pointer dereference"))
			}
			a := (*x).(array)
			fr.env[instr] = &a[fr.index(idx, len(a))]
		default:
			panic(fmt.Sprintf("unexpected x type in IndexAddr: %T", x))
		}

	case *ssa.Index:
		x := fr.get(instr.X)
		idx := fr.get(instr.Index)
		switch x := x.(type) {
		case array:
			fr.env[instr] = fr.indexRead(x, idx, instr.Type())
		case string:
			if is, ok := idx.(sym); ok {
				fr.env[instr] = fr.indexRead(strBytes(x), is, instr.Type())
			} else {
				fr.env[instr] = x[fr.index(idx, len(x))]
			}
		case symString:
			fr.env[instr] = fr.indexRead([]value(x), idx, instr.Type())
		default:
			panic(fmt.Sprintf("unexpected x type in Index: %T", x))
		}

	case *ssa.Lookup:
		fr.env[instr] = lookup(fr, instr, fr.get(instr.X), fr.get(instr.Index))

	case *ssa.MapUpdate:
		m := fr.get(instr.Map).(*omap)
		m.insert(p, fr.get(instr.Key), fr.get(instr.Value))

	case *ssa.TypeAssert:
		fr.env[instr] = typeAssert(fr.i, instr, fr.get(instr.X).(iface))

	case *ssa.MakeClosure:
		bindings := make([]value, 0, len(instr.Bindings))
		for _, binding := range instr.Bindings {
			bindings = append(bindings, fr.get(binding))
		}
		fr.env[instr] = &closure{instr.Fn.(*ssa.Function), bindings}

	case *ssa.Phi:
		panic("unreachable: phi")

	case *ssa.Select:
		fr.env[instr] = chanSelect(fr, instr)

	default:
		panic(fmt.Sprintf("unexpected instruction: %T", instr))
	}
	return kNext
}

func (fr *frame) jump(to *ssa.BasicBlock) {
	if to.Index <= fr.block.Index {
		if fr.backEdges == nil {
			fr.backEdges = make(map[*ssa.BasicBlock]int)
		}
		fr.backEdges[to]++
		if n := fr.backEdges[to]; n > fr.p.loopBound && !fr.p.initPhase && !fr.i.P.isHarnessFn(fr.fn) {
			// harness/engine-support code (zz files, intrinsic helpers) is exempt
			panic(pathEnd{StBound, fmt.Sprintf("loop bound %d exceeded in %s (block %d)%s", fr.p.loopBound, fr.fn, to.Index, loc(fr.fn.Prog.Fset, firstPos(to)))})
		}
	}
	fr.prevBlock, fr.block = fr.block, to
}

func firstPos(b *ssa.BasicBlock) token.Pos {
	for _, in := range b.Instrs {
		if in.Pos() != token.NoPos {
			return in.Pos()
		}
	}
	return token.NoPos
}

// concInt turns an integer value into a concrete int64, forking over the
// feasible values of a symbolic one (at most limit alternatives).
func (fr *frame) concInt(v value, limit int) int64 {
	if s, ok := v.(sym); ok {
		c := fr.p.decideValue(s.t, limit)
		return sext64(c, s.t.w)
	}
	return asInt64(v)
}

// index checks 0 <= idx < n and returns a concrete index (forking if needed).
func (fr *frame) index(idx value, n int) int {
	if s, ok := idx.(sym); ok {
		p := fr.p
		t := s.t
		var inRange *Term
		if t.w < 64 {
			// narrower index types are always converted by the SSA builder;
			// treat as unsigned of its width
			t = p.tt.ZExt(t, 64)
		}
		inRange = p.tt.Cmp(OpUlt, t, p.tt.Const(64, uint64(n)))
		if !p.decideBool(inRange) {
			panic(rtPanic(fmt.Sprintf("index out of range [sym] with length %d", n)))
		}
		return int(p.decideValue(t, n))
	}
	i := asInt64(idx)
	if i < 0 || i >= int64(n) {
		panic(rtPanic(fmt.Sprintf("index out of range [%d] with length %d", i, n)))
	}
	return int(i)
}

// indexRead reads elems[idx]; a symbolic index over scalar elements becomes
// an ite chain instead of a fork.
func (fr *frame) indexRead(elems []value, idx value, et types.Type) value {
	s, ok := idx.(sym)
	if !ok {
		return elems[fr.index(idx, len(elems))]
	}
	if _, _, isInt := intInfo(et); !isInt {
		return elems[fr.index(idx, len(elems))]
	}
	p := fr.p
	t := s.t
	if t.w < 64 {
		t = p.tt.ZExt(t, 64)
	}
	n := len(elems)
	inRange := p.tt.Cmp(OpUlt, t, p.tt.Const(64, uint64(n)))
	if !p.decideBool(inRange) {
		panic(rtPanic(fmt.Sprintf("index out of range [sym] with length %d", n)))
	}
	res := p.termOf(elems[n-1])
	for i := n - 2; i >= 0; i-- {
		res = p.tt.Ite(p.tt.Cmp(OpEq, t, p.tt.Const(64, uint64(i))), p.termOf(elems[i]), res)
	}
	return mkval(et, res)
}

func prepareCall(fr *frame, call *ssa.CallCommon) (fn value, args []value) {
	v := fr.get(call.Value)
	if call.Method == nil {
		fn = v
	} else {
		recv := v.(iface)
		if recv.t == nil {
			panic(rtPanic("invalid memory address or nil pointer dereference (method call on nil interface)"))
		}
		f := lookupMethod(fr.i, recv.t, call.Method)
		if f == nil {
			panic(fmt.Sprintf("method set for dynamic type %v does not contain %s", recv.t, call.Method))
		}
		if ov := fr.i.overrideFor(f); ov != nil {
			fn = ov
		} else {
			fn = f
		}
		args = make([]value, 0, len(call.Args)+1)
		args = append(args, recv.v)
	}
	for _, arg := range call.Args {
		args = append(args, fr.get(arg))
	}
	return
}

func call(i *interpreter, caller *frame, callpos token.Pos, fn value, args []value) value {
	switch fn := fn.(type) {
	case *ssa.Function:
		if fn == nil {
			panic(rtPanic("invalid memory address or nil pointer dereference (call of nil func)"))
		}
		return callSSA(i, caller, callpos, fn, args, nil)
	case *closure:
		return callSSA(i, caller, callpos, fn.Fn, args, fn.Env)
	case *ssa.Builtin:
		return callBuiltin(caller, fn, args)
	case *nativeFn:
		return fn.f(caller, args)
	}
	panic(fmt.Sprintf("cannot call %T", fn))
}

func loc(fset *token.FileSet, pos token.Pos) string {
	if pos == token.NoPos {
		return ""
	}
	return " at " + fset.Position(pos).String()
}

func (i *interpreter) intrinsicFor(fn *ssa.Function) intrinsic {
	if in, ok := i.intrCache[fn]; ok {
		return in
	}
	var in intrinsic
	if fn.Parent() == nil {
		name := fn.String()
		in = intrinsics[name]
		if in == nil && fn.Origin() != nil {
			in = intrinsics[fn.Origin().String()]
		}
	}
	i.intrCache[fn] = in
	return in
}

const maxDepth = 2000

func callSSA(i *interpreter, caller *frame, callpos token.Pos, fn *ssa.Function, args []value, env []value) value {
	p := i.path
	fr := &frame{i: i, p: p, caller: caller, fn: fn}
	if caller != nil {
		fr.g = caller.g
	}
	if in := i.intrinsicFor(fn); in != nil {
		return in(fr, args)
	}
	if p.initPhase && strings.HasPrefix(fnPkgPath(fn), "github.com/alecthomas/participle") {
		// parser construction is reflection driven; package-level parsers stay nil
		return zeroResult(fn)
	}
	if fn.Blocks == nil {
		if fn.Synthetic != "" && strings.Contains(fn.Synthetic, "wrapper") {
			panic(pathEnd{StUnsupported, "no body for synthetic " + fn.String()})
		}
		panic(pathEnd{StUnsupported, "no code for function: " + fn.String()})
	}
	if fn.TypeParams().Len() > 0 && len(fn.TypeArgs()) == 0 {
		panic(pathEnd{StUnsupported, "uninstantiated generic " + fn.String()})
	}
	if fn.Synthetic == "package initializer" {
		i.runPkgInit(caller, fn)
		return nil
	}
	return callSSABody(i, caller, fn, args, env)
}

func callSSABody(i *interpreter, caller *frame, fn *ssa.Function, args []value, env []value) value {
	p := i.path
	fr := &frame{i: i, p: p, caller: caller, fn: fn}
	if caller != nil {
		fr.g = caller.g
	}
	p.depth++
	if p.depth > maxDepth {
		panic(pathEnd{StBound, "call depth exceeded in " + fn.String()})
	}
	fr.inRepo = i.P.isRepoFn(fn)
	if fr.inRepo {
		p.fnCalls[fn]++
	}
	fr.env = make(map[ssa.Value]value, len(fn.Params)+len(fn.Locals)+8)
	fr.block = fn.Blocks[0]
	fr.locals = make([]value, len(fn.Locals))
	for i, l := range fn.Locals {
		fr.locals[i] = zero(deref(l.Type()))
		fr.env[l] = &fr.locals[i]
	}
	for i, prm := range fn.Params {
		fr.env[prm] = args[i]
	}
	for i, fv := range fn.FreeVars {
		fr.env[fv] = env[i]
	}
	for fr.block != nil {
		runFrame(fr)
	}
	p.depth--
	return fr.result
}

// classifyPanic turns whatever Go panic value the interpreter produced into
// either a target-level panic (returned) or re-panics engine-level problems.
func classifyPanic(r any) any {
	switch r := r.(type) {
	case pathEnd:
		panic(r)
	case targetPanic, rtPanic:
		return r
	case runtime.Error:
		msg := r.Error()
		for _, ok := range []string{"nil pointer dereference", "index out of range", "slice bounds out of range", "integer divide by zero", "nil map", "negative shift", "makeslice", "len out of range", "cap out of range"} {
			if strings.Contains(msg, ok) {
				return rtPanic(strings.TrimPrefix(msg, "runtime error: "))
			}
		}
		buf := make([]byte, 1<<14)
		n := runtime.Stack(buf, false)
		panic(pathEnd{StEngineError, msg + "\n" + string(buf[:n])})
	case string:
		// interpreter-raised description of a target panic (type assertion etc.)
		return r
	default:
		buf := make([]byte, 1<<14)
		n := runtime.Stack(buf, false)
		panic(pathEnd{StEngineError, fmt.Sprintf("unexpected panic %T: %v\n%s", r, r, buf[:n])})
	}
}

func runFrame(fr *frame) {
	defer func() {
		if fr.block == nil {
			return // normal return
		}
		r := recover()
		r = classifyPanic(r)
		fr.panicking = true
		fr.panic = r
		if fr.p.panicSite == "" || !fr.p.panicLive {
			fr.p.panicLive = true
			site := fr.fn.String() + fr.curPos()
			for c, k := fr.caller, 0; c != nil && c.fn != nil && k < 12; c, k = c.caller, k+1 {
				site += " <- " + c.fn.Name()
			}
			fr.p.panicSite = site
		}
		fr.runDefers()
		// recovered
		fr.p.panicLive = false
		fr.p.depth = fr.depthAt
		fr.block = fr.fn.Recover
		if fr.block == nil {
			// function without named results: returns zero values
			fr.result = zeroResult(fr.fn)
		}
	}()
	fr.depthAt = fr.p.depth
	p := fr.p
	for {
		nonPhis := executePhis(fr)
		p.instrCount += int64(len(nonPhis))
		if fr.inRepo {
			p.repoInstr += int64(len(nonPhis))
		}
		if p.profile != nil {
			p.profile[fr.fn] += int64(len(nonPhis))
		}
		if p.instrCount > p.maxInstr && !p.initPhase {
			panic(pathEnd{StBound, fmt.Sprintf("instruction budget %d exceeded in %s", p.maxInstr, fr.fn)})
		}
		for _, instr := range nonPhis {
			fr.cur = instr
			if visitInstr(fr, instr) == kReturn {
				return
			}
		}
	}
}

func zeroResult(fn *ssa.Function) value {
	res := fn.Signature.Results()
	switch res.Len() {
	case 0:
		return nil
	case 1:
		return zero(res.At(0).Type())
	}
	t := make(tuple, res.Len())
	for i := range t {
		t[i] = zero(res.At(i).Type())
	}
	return t
}

func (fr *frame) curPos() string {
	if fr.cur != nil {
		if pos := fr.cur.Pos(); pos != token.NoPos {
			return loc(fr.fn.Prog.Fset, pos)
		}
		// walk back in block for a position
		for _, in := range fr.cur.Block().Instrs {
			if in.Pos() != token.NoPos {
				return loc(fr.fn.Prog.Fset, in.Pos())
			}
		}
	}
	return ""
}

func executePhis(fr *frame) []ssa.Instruction {
	instrs := fr.block.Instrs
	firstNonPhi := 0
	for firstNonPhi < len(instrs) {
		if _, ok := instrs[firstNonPhi].(*ssa.Phi); !ok {
			break
		}
		firstNonPhi++
	}
	if firstNonPhi > 0 {
		phis := instrs[:firstNonPhi]
		predIndex := slices.Index(fr.block.Preds, fr.prevBlock)
		fr.phitemps = fr.phitemps[:0]
		for _, phi := range phis {
			fr.phitemps = append(fr.phitemps, fr.get(phi.(*ssa.Phi).Edges[predIndex]))
		}
		for i, phi := range phis {
			fr.env[phi.(*ssa.Phi)] = fr.phitemps[i]
		}
	}
	return instrs[firstNonPhi:]
}

func doRecover(caller *frame) value {
	if caller != nil && !caller.panicking &&
		caller.caller != nil && caller.caller.panicking {
		caller.caller.panicking = false
		p := caller.caller.panic
		caller.caller.panic = nil
		switch p := p.(type) {
		case targetPanic:
			return p.v
		case rtPanic:
			return iface{caller.i.runtimeErrorString, string(p)}
		case string:
			return iface{caller.i.runtimeErrorString, p}
		default:
			panic(fmt.Sprintf("unexpected panic type %T in target call to recover()", p))
		}
	}
	return iface{}
}

// fnPkgPath returns the import path of the package a function belongs to
// (through its origin for instantiations, its receiver for synthetic wrappers).
func fnPkgPath(fn *ssa.Function) string {
	f := fn
	for f.Parent() != nil {
		f = f.Parent()
	}
	if f.Origin() != nil {
		f = f.Origin()
	}
	if f.Pkg != nil {
		return f.Pkg.Pkg.Path()
	}
	if o := f.Object(); o != nil && o.Pkg() != nil {
		return o.Pkg().Path()
	}
	if recv := f.Signature.Recv(); recv != nil {
		if n, ok := derefNamed(recv.Type()); ok && n.Obj() != nil && n.Obj().Pkg() != nil {
			return n.Obj().Pkg().Path()
		}
	}
	return ""
}

// getLate reads a result operand of a multi-value return the way the gc
// compiler orders it: function calls in the operand list are performed first,
// plain variable reads happen when the results are assigned. go/ssa loads the
// variable in source order instead; the order is unspecified by the language
// and gc's is the one users run (e.g. `return s, evaluate(&s, ...)`).
func (fr *frame) getLate(ret *ssa.Return, r ssa.Value) value {
	ld, ok := r.(*ssa.UnOp)
	if !ok || ld.Op != token.MUL || ld.Block() != ret.Block() {
		return fr.get(r)
	}
	switch ld.X.(type) {
	case *ssa.Alloc, *ssa.Global, *ssa.FreeVar:
	default:
		return fr.get(r)
	}
	if refs := ld.Referrers(); refs == nil || len(*refs) != 1 {
		return fr.get(r)
	}
	if ld.Pos() == token.NoPos || ret.Pos() == token.NoPos || ld.Pos() < ret.Pos() {
		return fr.get(r)
	}
	// is there a call between the load and the return?
	seenLoad, callAfter := false, false
	for _, in := range ret.Block().Instrs {
		if in == ssa.Instruction(ld) {
			seenLoad = true
			continue
		}
		if seenLoad {
			if _, isCall := in.(*ssa.Call); isCall {
				callAfter = true
				break
			}
		}
	}
	if !callAfter {
		return fr.get(r)
	}
	addr := fr.get(ld.X).(*value)
	return load(deref(ld.X.Type()), addr)
}
